import Siot.Lemmas.Pb
import Siot.Lemmas.PbBytes
import Siot.Gen.Pb
/-
C12 — Wire encodings are lossless and malformed bytes are rejected cleanly.
Model: Siot/Model/Proto3.lean (wire format as protobuf-go v1.27.1 implements it for these messages),
Siot/Model/Pb.lean (messages, conversions, decoders, high-rate payload, subject parsers).
-/
namespace Siot.Pb
open Siot Siot.Proto3

/-- Tie A: the message layouts of internal/pb/*.proto (field names, types, numbers), the offsets of
the high-rate payload parser, the chunk-count checks of the subject parsers and the nil check of
PbToNode as they are in the sources right now. -/
theorem gen_pb_pinned :
    Gen.pbPointProto = ["Point.data:bytes:14", "Point.key:string:11", "Point.origin:string:15", "Point.text:string:8",
      "Point.time:google.protobuf.Timestamp:5", "Point.tombstone:int32:12", "Point.type:string:2", "Point.value:double:4",
      "PointArray.key:string:3", "PointArray.samplerate:float:4", "PointArray.starttime:uint64:1", "PointArray.type:string:2",
      "PointArray.values:*float:5", "Points.points:*Point:1", "SerialPoint.data:bytes:14", "SerialPoint.key:string:11",
      "SerialPoint.origin:string:15", "SerialPoint.text:string:8", "SerialPoint.time:int64:16", "SerialPoint.tombstone:int32:12",
      "SerialPoint.type:string:2", "SerialPoint.value:float:4", "SerialPoints.points:*SerialPoint:1"] ∧
    Gen.pbNodeProto = ["Node.edgePoints:*Point:7", "Node.hash:int32:4", "Node.id:string:1", "Node.parent:string:6",
      "Node.points:*Point:3", "Node.type:string:2", "NodeRequest.error:string:2", "NodeRequest.node:Node:1",
      "Nodes.nodes:*Node:1", "NodesRequest.error:string:2", "NodesRequest.nodes:*Node:1"] ∧
    Gen.hrPayloadLits = ["16", "16", "8", "4", "4", "0", "16", "16", "32", "32", "40", "0", "40", "44", "16", "16", "8",
      "4", "4", "0", "0", "44", "4", "44", "4", "4"] ∧
    Gen.subjectParserCmps = ["<2", "<3", "<3", "<4"] ∧
    Gen.pbToNodeCmps = ["pbNode==nil", "err!=nil", "err!=nil"] := by
  decide

/-- **C12 point round trip (message level).** Every field of a point — type, key, value bits, text,
seconds and nanoseconds, tombstone, origin and binary data — survives `ToPb` / `PbToPoint`, for
every point whose time lies in the Timestamp range and whose tombstone count fits an int32. -/
theorem c12_point_roundtrip (p : Point) (ht : WireTime p) (hb : Int32 p.tomb) :
    ∃ q, toPb p = .ok q ∧ pbToPoint q = .ok p := by
  have hv := validTs_of_wire p ht
  refine ⟨{ type := p.type, key := p.key, value := p.value, text := p.text, time := some ⟨p.sec, p.nsec⟩,
            tombstone := toInt32 (ofInt64 p.tomb), data := p.data, origin := p.origin }, by simp [toPb, hv], ?_⟩
  simp only [pbToPoint, hv, if_true, toInt32_ofInt64 p.tomb hb]

/-- outside the Timestamp range the encoder reports an error instead of sending a wrong time -/
theorem c12_point_time_error (p : Point) (h : validTs ⟨p.sec, p.nsec⟩ = false) : toPb p = .err "timestamp" := by
  simp [toPb, h]

theorem toInt32_hash (h : Nat) (hh : h < 4294967296) : ((toInt32 h) % 4294967296).toNat = h := by
  unfold toInt32
  simp only []
  have : h % 4294967296 = h := Nat.mod_eq_of_lt hh
  rw [this]
  split <;> omega

/-- **C12 node round trip (message level).** id, type, parent, hash (through int32 and back) and both
point lists survive `ToPbNode` / `PbToNode`. -/
theorem c12_node_roundtrip (n : Node) (hh : n.hash < 4294967296)
    (hp : ∀ p ∈ n.points ++ n.edgePoints, WireTime p ∧ Int32 p.tomb) :
    ∃ q, toPbNode n = .ok q ∧ pbToNode (some q) = .ok n := by
  -- every point converts, and converts back
  have conv : ∀ l : List Point, (∀ p ∈ l, WireTime p ∧ Int32 p.tomb) →
      ∃ qs, mapRes toPb l = .ok qs ∧ mapRes pbToPoint qs = .ok l := by
    intro l
    induction l with
    | nil => intro _; exact ⟨[], rfl, rfl⟩
    | cons p ps ih =>
      intro h
      obtain ⟨q, hq1, hq2⟩ := c12_point_roundtrip p (h p (by simp)).1 (h p (by simp)).2
      obtain ⟨qs, hqs1, hqs2⟩ := ih (fun x hx => h x (by simp [hx]))
      exact ⟨q :: qs, by simp [mapRes, hq1, hqs1], by simp [mapRes, hq2, hqs2]⟩
  obtain ⟨ps, hps1, hps2⟩ := conv n.points (fun p hpm => hp p (by simp [hpm]))
  obtain ⟨es, hes1, hes2⟩ := conv n.edgePoints (fun p hpm => hp p (by simp [hpm]))
  refine ⟨{ id := n.id, type := n.type, hash := toInt32 n.hash, parent := n.parent, points := ps, edgePoints := es },
    by simp only [toPbNode, hps1, hes1], ?_⟩
  simp only [pbToNode, hps2, hes2, toInt32_hash n.hash hh]

/-! ### the same round trips through the bytes on the wire -/

/-- what the system puts into a point: a time in the Timestamp range, a tombstone count that fits an int32, text
fields that are valid UTF-8 (protobuf-go refuses to marshal anything else), a 64-bit value pattern, and less than
2^63 bytes of strings and data -/
structure PointOk (p : Point) : Prop where
  time : WireTime p
  tomb : Int32 p.tomb
  type : utf8Valid p.type = true
  key : utf8Valid p.key = true
  text : utf8Valid p.text = true
  origin : utf8Valid p.origin = true
  value : p.value < 18446744073709551616
  size : p.type.length + p.text.length + p.key.length + p.origin.length + p.data.length < 9223372036854775808

def pbOf (p : Point) : PbPoint :=
  { type := p.type, key := p.key, value := p.value, text := p.text, time := some ⟨p.sec, p.nsec⟩,
    tombstone := toInt32 (ofInt64 p.tomb), data := p.data, origin := p.origin }

theorem toPb_ok (p : Point) (h : PointOk p) : toPb p = .ok (pbOf p) := by
  simp [toPb, pbOf, validTs_of_wire p h.time]

theorem pbOf_ok (p : Point) (h : PointOk p) : PbPointOk (pbOf p) ∧ SmallPoint (pbOf p) := by
  have hs := h.size
  obtain ⟨t1, t2, t3, t4⟩ := h.time
  refine ⟨⟨h.type, h.text, h.key, h.origin, h.value, ?_, ?_, ?_⟩, ?_⟩
  · show Int32 (toInt32 (ofInt64 p.tomb))
    rw [toInt32_ofInt64 _ h.tomb]; exact h.tomb
  · intro t ht
    simp only [pbOf, Option.some.injEq] at ht
    subst ht
    unfold minValidSeconds at t1
    unfold maxValidSeconds at t2
    exact ⟨⟨by show (-9223372036854775808 : Int) ≤ p.sec; omega, by show p.sec ≤ 9223372036854775807; omega⟩,
      ⟨by show (-2147483648 : Int) ≤ p.nsec; omega, by show p.nsec ≤ 2147483647; omega⟩⟩
  · simp only [pbOf]; omega
  · exact hs

/-- **C12 point round trip through the wire bytes.** For every well-formed point, `ToPb` succeeds, the bytes
`proto.Marshal` writes for the result parse and decode (`proto.Unmarshal`) to exactly that message, and `PbToPoint`
gives back the original point, field for field. -/
theorem c12_point_bytes_roundtrip (p : Point) (h : PointOk p) :
    ∃ q, toPb p = .ok q ∧ pointOfBytes (encPoint q) = some q ∧ pbToPoint q = .ok p := by
  obtain ⟨q, hq1, hq2⟩ := c12_point_roundtrip p h.time h.tomb
  have := toPb_ok p h
  rw [this] at hq1
  cases hq1
  exact ⟨pbOf p, this, pointOfBytes_encPoint _ (pbOf_ok p h).1, hq2⟩

theorem mapRes_toPb (ps : List Point) (h : ∀ p ∈ ps, PointOk p) : mapRes toPb ps = .ok (ps.map pbOf) :=
  mapRes_ok toPb pbOf ps (fun p hp => toPb_ok p (h p hp))

theorem mapRes_back (ps : List Point) (h : ∀ p ∈ ps, PointOk p) : mapRes pbToPoint (ps.map pbOf) = .ok ps := by
  induction ps with
  | nil => rfl
  | cons p ps ih =>
    obtain ⟨q, hq1, hq2⟩ := c12_point_roundtrip p (h p (by simp)).time (h p (by simp)).tomb
    rw [toPb_ok p (h p (by simp))] at hq1
    cases hq1
    simp only [List.map_cons, mapRes, hq2, ih (fun x hx => h x (by simp [hx]))]

/-- **C12 point-list round trip through the wire bytes** (`Points.ToPb` / `PbDecodePoints`, the payload of every
point message on the bus): any list of well-formed points, of any length, is decoded from its own bytes to the same
list in the same order. -/
theorem c12_points_bytes_roundtrip (ps : List Point) (h : ∀ p ∈ ps, PointOk p) :
    ∃ qs, mapRes toPb ps = .ok qs ∧ pbDecodePoints (encPoints qs) = .ok ps := by
  refine ⟨ps.map pbOf, mapRes_toPb ps h, ?_⟩
  unfold pbDecodePoints
  rw [points_bytes (ps.map pbOf) (by
    intro q hq
    simp only [List.mem_map] at hq
    obtain ⟨p, hp, rfl⟩ := hq
    exact pbOf_ok p (h p hp))]
  exact mapRes_back ps h

/-- a node as the system produces it -/
structure NodeOk (n : Node) : Prop where
  id : utf8Valid n.id = true
  type : utf8Valid n.type = true
  parent : utf8Valid n.parent = true
  hash : n.hash < 4294967296
  lens : n.id.length < 18446744073709551616 ∧ n.type.length < 18446744073709551616 ∧ n.parent.length < 18446744073709551616
  points : ∀ p ∈ n.points ++ n.edgePoints, PointOk p

theorem toInt32_int32 (n : Nat) : Int32 (toInt32 n) := by
  unfold toInt32 Int32
  simp only []
  have := Nat.mod_lt n (show 0 < 4294967296 by decide)
  split <;> omega

/-- **C12 node round trip through the wire bytes** (`Node.ToPbNode` + `proto.Marshal` / `PbDecodeNode`): id, type,
parent, hash and both point lists of any length come back from the node's own bytes. -/
theorem c12_node_bytes_roundtrip (n : Node) (h : NodeOk n) :
    ∃ q, toPbNode n = .ok q ∧ pbDecodeNode (encNode q) = .ok n := by
  have hp1 : ∀ p ∈ n.points, PointOk p := fun p hp => h.points p (by simp [hp])
  have hp2 : ∀ p ∈ n.edgePoints, PointOk p := fun p hp => h.points p (by simp [hp])
  let q : PbNode := { id := n.id, type := n.type, hash := toInt32 n.hash, parent := n.parent,
                      points := n.points.map pbOf, edgePoints := n.edgePoints.map pbOf }
  have hq : toPbNode n = .ok q := by
    simp only [toPbNode, mapRes_toPb _ hp1, mapRes_toPb _ hp2, q]
  have hok : PbNodeOk q := by
    refine ⟨h.id, h.type, h.parent, toInt32_int32 _, h.lens, ?_⟩
    intro x hx
    simp only [q, List.mem_append, List.mem_map] at hx
    rcases hx with ⟨p, hp, rfl⟩ | ⟨p, hp, rfl⟩
    · exact pbOf_ok p (hp1 p hp)
    · exact pbOf_ok p (hp2 p hp)
  refine ⟨q, hq, ?_⟩
  unfold pbDecodeNode
  rw [nodeOfBytes_encNode q hok]
  simp only [pbToNode, q, mapRes_back _ hp1, mapRes_back _ hp2, toInt32_hash n.hash h.hash]

def pbNodeOf (n : Node) : PbNode :=
  { id := n.id, type := n.type, hash := toInt32 n.hash, parent := n.parent,
    points := n.points.map pbOf, edgePoints := n.edgePoints.map pbOf }

theorem toPbNode_ok (n : Node) (h : NodeOk n) : toPbNode n = .ok (pbNodeOf n) := by
  have hp1 : ∀ p ∈ n.points, PointOk p := fun p hp => h.points p (by simp [hp])
  have hp2 : ∀ p ∈ n.edgePoints, PointOk p := fun p hp => h.points p (by simp [hp])
  simp only [toPbNode, mapRes_toPb _ hp1, mapRes_toPb _ hp2, pbNodeOf]

theorem pbNodeOf_ok (n : Node) (h : NodeOk n) : PbNodeOk (pbNodeOf n) := by
  refine ⟨h.id, h.type, h.parent, toInt32_int32 _, h.lens, ?_⟩
  intro x hx
  simp only [pbNodeOf, List.mem_append, List.mem_map] at hx
  rcases hx with ⟨p, hp, rfl⟩ | ⟨p, hp, rfl⟩
  · exact pbOf_ok p (h.points p (by simp [hp]))
  · exact pbOf_ok p (h.points p (by simp [hp]))

theorem pbToNode_back (n : Node) (h : NodeOk n) : pbToNode (some (pbNodeOf n)) = .ok n := by
  have hp1 : ∀ p ∈ n.points, PointOk p := fun p hp => h.points p (by simp [hp])
  have hp2 : ∀ p ∈ n.edgePoints, PointOk p := fun p hp => h.points p (by simp [hp])
  simp only [pbToNode, pbNodeOf, mapRes_back _ hp1, mapRes_back _ hp2, toInt32_hash n.hash h.hash]

/-- **C12 node-list round trip through the wire bytes** (`Nodes` / `NodesRequest`, the reply to a children or node
query): any list of well-formed nodes whose single encodings stay below 2^64 bytes is decoded from its own bytes to
the same list in the same order, with or without the error field being read. -/
theorem c12_nodes_bytes_roundtrip (withErr : Bool) (ns : List Node) (h : ∀ n ∈ ns, NodeOk n)
    (hsz : ∀ n ∈ ns, (encNode (pbNodeOf n)).length < 18446744073709551616) :
    ∃ qs, mapRes toPbNode ns = .ok qs ∧ pbDecodeNodes withErr (encNodes qs) = .ok ns := by
  refine ⟨ns.map pbNodeOf, mapRes_ok toPbNode pbNodeOf ns (fun n hn => toPbNode_ok n (h n hn)), ?_⟩
  unfold pbDecodeNodes
  rw [nodes_bytes withErr (ns.map pbNodeOf) (by
    intro q hq
    simp only [List.mem_map] at hq
    obtain ⟨n, hn, rfl⟩ := hq
    exact ⟨pbNodeOf_ok n (h n hn), hsz n hn⟩)]
  simp only [ne_eq, not_true_eq_false, and_false, if_false]
  have : mapRes (fun n => pbToNode (some n)) (ns.map pbNodeOf) = .ok ns := by
    clear hsz
    induction ns with
    | nil => rfl
    | cons n ns ih =>
      simp only [List.map_cons, mapRes, pbToNode_back n (h n (by simp)), ih (fun x hx => h x (by simp [hx]))]
  exact this

/-- **C12 serial points through the wire bytes** (`SerialPoints`, the MCU link): every well-formed list of serial
points is decoded from its own bytes to the points with the same type, key, text, binary data, tombstone count and
origin, the float32 value widened and the nanosecond time split into seconds and nanoseconds — nothing else. -/
theorem c12_serial_bytes_roundtrip (widen : Nat → Nat) (qs : List PbSerialPoint)
    (h : ∀ q ∈ qs, PbSerialOk q ∧ (encSerialPoint q).length < 18446744073709551616) :
    pbDecodeSerialPoints widen (encSerialPoints qs) = .ok (qs.map (serialToPoint widen)) := by
  unfold pbDecodeSerialPoints
  rw [serial_points_bytes qs h]

/-- the hypotheses are satisfiable by an ordinary point (non-vacuity) -/
example : PointOk { type := [0x76], key := [0x30], value := 0x3ff0000000000000, text := [], sec := 1700000000,
                    nsec := 5, tomb := 1, origin := [], data := [1, 2] } := by
  refine ⟨⟨?_, ?_, ?_, ?_⟩, ⟨?_, ?_⟩, ?_, ?_, ?_, ?_, ?_, ?_⟩ <;> decide

/-- **C12 decoders are total.** Whatever bytes arrive — for points, a node, a node reply (with or
without a node), node lists, serial points — the decoder returns a value or an error; the outcome
`panic` (nil dereference, index out of range) is impossible. -/
theorem c12_decoders_total (widen : Nat → Nat) (b : Bytes) (m : String) :
    pbDecodePoints b ≠ .panic m ∧ pbDecodeNode b ≠ .panic m ∧ pbDecodeNodeRequest b ≠ .panic m ∧
    pbDecodeNodes false b ≠ .panic m ∧ pbDecodeNodes true b ≠ .panic m ∧ pbDecodeSerialPoints widen b ≠ .panic m := by
  refine ⟨?_, ?_, ?_, ?_, ?_, ?_⟩
  · unfold pbDecodePoints
    cases (parse b).bind (decPointsField 1 []) with
    | none => simp
    | some ps => exact mapRes_no_panic pbToPoint pbToPoint_no_panic ps m
  · unfold pbDecodeNode
    cases nodeOfBytes {} b with
    | none => simp
    | some n => exact pbToNode_no_panic _ m
  · unfold pbDecodeNodeRequest
    cases (parse b).bind (decNodeRequest none []) with
    | none => simp
    | some r =>
      obtain ⟨node, err⟩ := r
      simp only []
      split
      · simp
      · exact pbToNode_no_panic _ m
  · unfold pbDecodeNodes
    cases (parse b).bind (decNodesRequest [] [] false) with
    | none => simp
    | some r =>
      obtain ⟨nodes, err⟩ := r
      simp only []
      split
      · simp
      · exact mapRes_no_panic _ (fun n m' => pbToNode_no_panic (some n) m') nodes m
  · unfold pbDecodeNodes
    cases (parse b).bind (decNodesRequest [] [] true) with
    | none => simp
    | some r =>
      obtain ⟨nodes, err⟩ := r
      simp only []
      split
      · simp
      · exact mapRes_no_panic _ (fun n m' => pbToNode_no_panic (some n) m') nodes m
  · unfold pbDecodeSerialPoints
    cases (parse b).bind (decSerialPoints []) <;> simp

/-- every slice taken by the sample loop of the high-rate parser is inside the payload -/
theorem hrSamples_no_panic (widen : Nat → Nat) (payload typ key : Bytes) (s p : Int) :
    ∀ (n i : Nat), 44 + 4 * (i + n) ≤ payload.length → ∀ m, hrSamples widen payload typ key s p i n ≠ .panic m := by
  intro n
  induction n with
  | zero => intro i _ m; simp [hrSamples]
  | succ n ih =>
    intro i h m
    simp only [hrSamples]
    have hs : slice payload (44 + i * 4) (44 + 4 + i * 4) = .ok ((payload.take (44 + 4 + i * 4)).drop (44 + i * 4)) := by
      unfold slice; rw [if_pos (by omega)]
    rw [hs]
    simp only []
    have := ih (i + 1) (by omega)
    cases hr : hrSamples widen payload typ key s p (i + 1) n with
    | ok rest => simp
    | err e => simp
    | panic m' => exact absurd hr (this m')

/-- **C12 high-rate payload: all slice bounds are within the payload.** -/
theorem c12_hr_in_bounds (widen : Nat → Nat) (now : Int) (payload : Bytes) (m : String) :
    decodeHr widen now payload ≠ .panic m := by
  unfold decodeHr
  split
  · simp
  · rename_i hl
    have h1 : slice payload 0 16 = .ok ((payload.take 16).drop 0) := by unfold slice; rw [if_pos (by omega)]
    have h2 : slice payload 16 32 = .ok ((payload.take 32).drop 16) := by unfold slice; rw [if_pos (by omega)]
    have h3 : slice payload 32 40 = .ok ((payload.take 40).drop 32) := by unfold slice; rw [if_pos (by omega)]
    have h4 : slice payload 40 44 = .ok ((payload.take 44).drop 40) := by unfold slice; rw [if_pos (by omega)]
    rw [h1, h2, h3, h4]
    simp only []
    exact hrSamples_no_panic widen payload _ _ _ _ _ 0 (by omega) m

/-- **C12 subject parsers index only below the checked length.** -/
theorem c12_subjects_total (s : Bytes) (m : String) :
    parseSubject 2 [1] s ≠ .panic m ∧ parseSubject 3 [1, 2] s ≠ .panic m ∧ parseSubject 4 [1, 2, 3] s ≠ .panic m := by
  have key : ∀ (k : Nat) (pos : List Nat), (∀ i ∈ pos, i < k) → parseSubject k pos s ≠ .panic m := by
    intro k pos hpos
    unfold parseSubject
    simp only []
    split
    · simp
    · rename_i hl
      apply mapRes_no_panic_mem
      intro i hi m'
      unfold idx
      have : i < (chunks s).length := by have := hpos i hi; omega
      simp [List.getElem?_eq_getElem this]
  exact ⟨key 2 [1] (by simp), key 3 [1, 2] (by simp), key 4 [1, 2, 3] (by simp)⟩

end Siot.Pb
