import Siot.Lemmas.Schedule
import Siot.Gen.Schedule
/-
C14 — Schedule windows: UTC, midnight wrap, qualified by the start day.
Property theorems only; helper lemmas live in Siot/Lemmas/Schedule.lean.
-/
namespace Siot.Schedule
open Siot

/-- Tie A: the two regular expressions that `parseHM` / `parseDate` transcribe are the ones in
client/schedule.go right now (regenerated from the source on every run). -/
theorem gen_reHourMin_pinned : Gen.reHourMin = "(\\d{1,2}):(\\d\\d)" := rfl
theorem gen_reDate_pinned : Gen.reDate = "(\\d{4})-(\\d{2})-(\\d{2})" := rfl

theorem dayOf_start (D : Int) (sh sm : Nat) (h1 : sh < 24) (h2 : sm < 60) :
    dayOf (D * dayNs + (sh : Int) * hourNs + (sm : Int) * minNs) = D := by
  unfold dayOf dayNs hourNs minNs
  omega

theorem dayOf_start_prev (D : Int) (sh sm : Nat) (h1 : sh < 24) (h2 : sm < 60) :
    dayOf (D * dayNs + (sh : Int) * hourNs + (sm : Int) * minNs - dayNs) = D - 1 := by
  unfold dayOf dayNs hourNs minNs
  omega

/-- **C14 (main).** For every schedule whose start and end parse to valid clock times and whose
date strings all parse, and for every instant `t` (any integer number of nanoseconds),
`activeForTime` returns without error, and returns `true` exactly when some calendar day `D`
— quantified over ALL days — is allowed by the filters and its window contains `t`. -/
theorem c14_exact (s : Sched) (t : Int) (sh sm eh em : Nat)
    (hs : parseHM s.start = some (sh, sm)) (he : parseHM s.stop = some (eh, em))
    (hsh : sh < 24) (hsm : sm < 60) (heh : eh < 24) (hem : em < 60)
    (hd : ∀ d ∈ s.dates, parseDate d ≠ none) :
    ∃ b, activeForTime s t = .ok b ∧ (b = true ↔ window s.weekdays s.dates sh sm eh em t) := by
  obtain ⟨b, hb, hiff⟩ := active_char s t sh sm eh em hs he hd
  refine ⟨b, hb, ?_⟩
  rw [hiff]
  have hD0 := dayOf_start (dayOf t) sh sm hsh hsm
  have hD1 := dayOf_start_prev (dayOf t) sh sm hsh hsm
  have hdef : dayOf t = t / 86400000000000 := rfl
  constructor
  · -- implementation ⇒ specification
    rintro ⟨r, hr, hw, hdt, hc⟩
    rw [contains_iff] at hc
    simp only at hr
    split at hr
    · rename_i hlt
      simp only [List.mem_singleton] at hr
      subst hr
      refine ⟨dayOf t, ⟨?_, ?_⟩, ?_⟩
      · simpa [wdOK, hD0] using hw
      · simpa [dateOK, hD0] using hdt
      · simp only [inWindow, endOf, startOf, hlt, if_true]
        exact hc
    · rename_i hnlt
      simp only [List.mem_cons, List.not_mem_nil, or_false] at hr
      rcases hr with hr | hr
      · subst hr
        refine ⟨dayOf t, ⟨?_, ?_⟩, ?_⟩
        · simpa [wdOK, hD0] using hw
        · simpa [dateOK, hD0] using hdt
        · simp only [inWindow, endOf, startOf, hnlt, if_false]
          exact hc
      · subst hr
        refine ⟨dayOf t - 1, ⟨?_, ?_⟩, ?_⟩
        · simpa [wdOK, hD1] using hw
        · simpa [dateOK, hD1] using hdt
        · have hlt' : ¬ ((dayOf t - 1) * dayNs + (sh : Int) * hourNs + (sm : Int) * minNs <
              (dayOf t - 1) * dayNs + (eh : Int) * hourNs + (em : Int) * minNs) := by
            simp only [dayNs, hourNs, minNs] at hnlt ⊢; omega
          simp only [inWindow, endOf, startOf, hlt', if_false]
          simp only [dayNs, hourNs, minNs] at hc ⊢
          omega
  · -- specification ⇒ implementation: only today's and yesterday's window can contain t
    rintro ⟨D, ⟨hwd, hdate⟩, hin⟩
    simp only [inWindow, endOf, startOf] at hin
    by_cases hlt : dayOf t * dayNs + (sh : Int) * hourNs + (sm : Int) * minNs <
        dayOf t * dayNs + (eh : Int) * hourNs + (em : Int) * minNs
    · have hltD : D * dayNs + (sh : Int) * hourNs + (sm : Int) * minNs <
          D * dayNs + (eh : Int) * hourNs + (em : Int) * minNs := by
        simp only [dayNs, hourNs, minNs] at hlt ⊢; omega
      simp only [hltD, if_true] at hin
      have hD : D = dayOf t := by simp only [dayNs, hourNs, minNs] at hin; omega
      subst hD
      refine ⟨⟨dayOf t * dayNs + (sh : Int) * hourNs + (sm : Int) * minNs, dayOf t * dayNs + (eh : Int) * hourNs + (em : Int) * minNs⟩, by simp only [hlt, if_true, List.mem_singleton], ?_, ?_, ?_⟩
      · simpa [wdOK, hD0] using hwd
      · simpa [dateOK, hD0] using hdate
      · rw [contains_iff]; exact hin
    · have hltD : ¬ (D * dayNs + (sh : Int) * hourNs + (sm : Int) * minNs <
          D * dayNs + (eh : Int) * hourNs + (em : Int) * minNs) := by
        simp only [dayNs, hourNs, minNs] at hlt ⊢; omega
      simp only [hltD, if_false] at hin
      have hD : D = dayOf t ∨ D = dayOf t - 1 := by
        simp only [dayNs, hourNs, minNs] at hin hlt; omega
      rcases hD with hD | hD
      · subst hD
        refine ⟨⟨dayOf t * dayNs + (sh : Int) * hourNs + (sm : Int) * minNs, dayOf t * dayNs + (eh : Int) * hourNs + (em : Int) * minNs + dayNs⟩, by simp only [hlt, if_false]; exact List.mem_cons_self, ?_, ?_, ?_⟩
        · simpa [wdOK, hD0] using hwd
        · simpa [dateOK, hD0] using hdate
        · rw [contains_iff]; exact hin
      · subst hD
        refine ⟨⟨dayOf t * dayNs + (sh : Int) * hourNs + (sm : Int) * minNs - dayNs, dayOf t * dayNs + (eh : Int) * hourNs + (em : Int) * minNs⟩, by simp only [hlt, if_false]; exact List.mem_cons_of_mem _ List.mem_cons_self, ?_, ?_, ?_⟩
        · simpa [wdOK, hD1] using hwd
        · simpa [dateOK, hD1] using hdate
        · rw [contains_iff]
          simp only [dayNs, hourNs, minNs] at hin ⊢
          omega

/-- only the day of `t` and the day before can have a window containing `t` -/
theorem window_day (t D : Int) (sh sm eh em : Nat)
    (hsh : sh < 24) (hsm : sm < 60) (heh : eh < 24) (hem : em < 60)
    (hin : inWindow t D sh sm eh em) : D = dayOf t ∨ D = dayOf t - 1 := by
  have hdef : dayOf t = t / 86400000000000 := rfl
  simp only [inWindow, endOf, startOf] at hin
  by_cases hc : D * dayNs + (sh:Int) * hourNs + (sm:Int) * minNs <
      D * dayNs + (eh:Int) * hourNs + (em:Int) * minNs
  · simp only [hc, if_true] at hin
    simp only [dayNs, hourNs, minNs] at hin hc; omega
  · simp only [hc, if_false] at hin
    simp only [dayNs, hourNs, minNs] at hin hc; omega

/-- the executable oracle used by the driver is the specification -/
theorem windowExec_iff (wds : List Int) (dates : List Bytes) (t : Int) (sh sm eh em : Nat)
    (hsh : sh < 24) (hsm : sm < 60) (heh : eh < 24) (hem : em < 60) :
    windowExec wds dates sh sm eh em t = true ↔ window wds dates sh sm eh em t := by
  unfold windowExec window
  simp only [List.any_cons, List.any_nil, Bool.or_false, Bool.or_eq_true, Bool.and_eq_true,
    decide_eq_true_eq]
  constructor
  · rintro (h | h | h | h) <;> exact ⟨_, h.1, h.2⟩
  · rintro ⟨D, ha, hin⟩
    rcases window_day t D sh sm eh em hsh hsm heh hem hin with rfl | rfl
    · exact Or.inr (Or.inr (Or.inl ⟨ha, hin⟩))
    · exact Or.inr (Or.inl ⟨ha, hin⟩)

/-- **C14 boundaries.** start inclusive, end exclusive; `start = end` is a 24 h window. -/
theorem c14_boundaries (D : Int) (sh sm eh em : Nat)
    (hsh : sh < 24) (hsm : sm < 60) (heh : eh < 24) (hem : em < 60) :
    inWindow (startOf D sh sm) D sh sm eh em ∧ ¬ inWindow (endOf D sh sm eh em) D sh sm eh em ∧
    endOf D sh sm sh sm = startOf D sh sm + dayNs := by
  refine ⟨?_, ?_, ?_⟩
  · simp only [inWindow, endOf, startOf]
    by_cases hc : D * dayNs + (sh:Int) * hourNs + (sm:Int) * minNs <
        D * dayNs + (eh:Int) * hourNs + (em:Int) * minNs
    · rw [if_pos hc]
      exact ⟨Int.le_refl _, hc⟩
    · rw [if_neg hc]
      refine ⟨Int.le_refl _, ?_⟩
      simp only [dayNs, hourNs, minNs] at hc ⊢; omega
  · simp only [inWindow]; omega
  · simp only [endOf, startOf, dayNs, hourNs, minNs]; omega

/-- **C14 errors.** A start or end string without a `H:MM` match is an error, whatever the rest. -/
theorem c14_err_start (s : Sched) (t : Int) (h : parseHM s.start = none) :
    activeForTime s t = .err "start" := by
  unfold activeForTime; rw [h]

theorem c14_err_end (s : Sched) (t : Int) (p : Nat × Nat) (h : parseHM s.start = some p)
    (h2 : parseHM s.stop = none) : activeForTime s t = .err "end" := by
  unfold activeForTime; rw [h]; obtain ⟨a, b⟩ := p; simp only [h2]

/-- non-vacuity: a wrapping weekday-qualified schedule "22:30"–"01:15", Thursdays only;
    Friday 1970-01-02 00:30 UTC is inside (window started Thursday), and the hypotheses hold. -/
def exSched : Sched := ⟨[50,50,58,51,48], [48,49,58,49,53], [4], []⟩  -- "22:30", "01:15"
example : parseHM exSched.start = some (22, 30) ∧ parseHM exSched.stop = some (1, 15) ∧
    activeForTime exSched (1 * dayNs + 30 * minNs) = .ok true ∧
    activeForTime exSched (2 * dayNs + 30 * minNs) = .ok false := by decide

end Siot.Schedule
