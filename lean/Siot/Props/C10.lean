import Siot.Lemmas.ConfigField
import Siot.Gen.Config
/-
C10 — Typed configuration survives Encode/Decode (and Diff/Merge).
Model: Siot/Model/Config.lean. Lemmas: Siot/Lemmas/Itoa.lean, ConfigRoundtrip*.lean, ConfigField.lean.
-/
namespace Siot.Config
open Siot

/-- Tie A: the two limits of data/encode.go as they are now -/
theorem gen_limits_pinned : Gen.cfgMaxSafeInteger = maxSafeInteger ∧ (Gen.cfgMaxStructureSize : Int) = (maxStructureSize : Nat) := by
  decide

/-- no two fields of the type share tag kind and point type -/
def TagsDistinct (T : Ty) : Prop := (T.map (fun f => (f.edge, f.ptype))).Nodup

/-- every field value lies in the supported universe (`FOk`) -/
def ValOk : Ty → List FVal → Prop
  | [], [] => True
  | f :: fs, x :: xs => FOk f.ty x ∧ ValOk fs xs
  | _, _ => False

/-- the per-field point lists line up with the fields, carry the field's type, and decode back -/
def Aligned (N : Num) : Ty → List FVal → List (List Point) → Prop
  | [], [], [] => True
  | f :: fs, x :: xs, l :: ls => (∀ p ∈ l, p.type = f.ptype) ∧ FieldRT N f.ty x l ∧ Aligned N fs xs ls
  | _, _, _ => False

theorem encodeFields_ok (N : Num) (hN : NumLaws N) : ∀ (T : Ty) (xs : List FVal), ValOk T xs →
    ∃ ls, encodeFields N T xs = .ok ls ∧ Aligned N T xs ls := by
  intro T
  induction T with
  | nil => intro xs h; cases xs with
    | nil => exact ⟨[], rfl, trivial⟩
    | cons _ _ => simp [ValOk] at h
  | cons f fs ih =>
    intro xs h
    cases xs with
    | nil => simp [ValOk] at h
    | cons x xs =>
      obtain ⟨hx, hrest⟩ := h
      obtain ⟨l, hl, ht, hrt⟩ := field_roundtrip N hN f.ptype f.ty x hx
      obtain ⟨ls, hls, hal⟩ := ih xs hrest
      exact ⟨l :: ls, by simp [encodeFields, hl, hls], ht, hrt, hal⟩

/-- the concatenation of the lists of the fields tagged `(e, pt)` -/
def pickTag (e : Bool) (pt : Bytes) : Ty → List (List Point) → List Point
  | f :: fs, l :: ls => if f.edge = e ∧ f.ptype = pt then l ++ pickTag e pt fs ls else pickTag e pt fs ls
  | _, _ => []

theorem filter_own (l : List Point) (pt pt' : Bytes) (h : ∀ p ∈ l, p.type = pt') :
    l.filter (fun p => p.type == pt) = if pt' = pt then l else [] := by
  induction l with
  | nil => split <;> rfl
  | cons p l ih =>
    have hp := h p (by simp)
    have := ih (fun q hq => h q (by simp [hq]))
    simp only [List.filter_cons, hp]
    by_cases hpp : pt' = pt
    · simp only [hpp, beq_self_eq_true, if_true] at this ⊢; rw [this]
    · have : (pt' == pt) = false := by simpa using hpp
      simp only [this, Bool.false_eq_true, if_false, hpp] at *
      assumption

theorem collect_filter (N : Num) (e : Bool) (pt : Bytes) : ∀ (T : Ty) (xs : List FVal) (ls : List (List Point)),
    Aligned N T xs ls → (collect e T ls).filter (fun p => p.type == pt) = pickTag e pt T ls := by
  intro T
  induction T with
  | nil => intro xs ls _; cases ls <;> rfl
  | cons f fs ih =>
    intro xs ls h
    cases xs with
    | nil => cases ls <;> simp [Aligned] at h
    | cons x xs =>
      cases ls with
      | nil => simp [Aligned] at h
      | cons l ls =>
        obtain ⟨ht, _, hrest⟩ := h
        have ihr := ih xs ls hrest
        simp only [collect, pickTag]
        by_cases he : f.edge = e
        · simp only [he, if_true, true_and, List.filter_append, ihr, filter_own l pt f.ptype ht]
          split <;> simp
        · simp only [he, if_false, false_and, ihr]

theorem pickTag_none (e : Bool) (pt : Bytes) : ∀ (T : Ty) (ls : List (List Point)),
    (e, pt) ∉ T.map (fun f => (f.edge, f.ptype)) → pickTag e pt T ls = [] := by
  intro T
  induction T with
  | nil => intro ls _; cases ls <;> rfl
  | cons f fs ih =>
    intro ls h
    cases ls with
    | nil => rfl
    | cons l ls =>
      simp only [List.map_cons, List.mem_cons, not_or] at h
      simp only [pickTag]
      rw [if_neg (by intro hc; exact h.1 (by rw [← hc.1, ← hc.2])), ih ls h.2]

/-- decoding the fields of `T` from the encoded points of a value, starting from the zero value -/
theorem decodeFields_roundtrip (N : Num) (ne : NodeEdge) (T0 : Ty) (xs0 : List FVal) (ls0 : List (List Point))
    (hal0 : Aligned N T0 xs0 ls0)
    (hpts : ne.points = collect false T0 ls0) (hepts : ne.edgePoints = collect true T0 ls0) :
    ∀ (T : Ty) (xs : List FVal) (ls : List (List Point)), Aligned N T xs ls →
      (∀ f l, (f, l) ∈ T.zip ls → pickTag f.edge f.ptype T0 ls0 = l) →
      decodeFields N ne T (T.map (fun f => zeroF f.ty)) = (xs, false, none) := by
  intro T
  induction T with
  | nil => intro xs ls h _; cases xs <;> cases ls <;> simp [Aligned] at h; rfl
  | cons f fs ih =>
    intro xs ls h hpick
    cases xs with
    | nil => cases ls <;> simp [Aligned] at h
    | cons x xs =>
      cases ls with
      | nil => simp [Aligned] at h
      | cons l ls =>
        obtain ⟨_, hrt, hrest⟩ := h
        have hl : pickTag f.edge f.ptype T0 ls0 = l := hpick f l (by simp)
        have hgrp : group f.ptype (if f.edge then ne.edgePoints else ne.points) =
            if l.isEmpty then none else some (l.foldl groupStep {}) := by
          rw [group_eq]
          have hf : (if f.edge then ne.edgePoints else ne.points).filter (fun p => p.type == f.ptype) = l := by
            cases he : f.edge with
            | true =>
              simp only [if_true, hepts]
              rw [collect_filter N true f.ptype T0 xs0 ls0 hal0, ← he, hl]
            | false =>
              simp only [Bool.false_eq_true, if_false, hpts]
              rw [collect_filter N false f.ptype T0 xs0 ls0 hal0, ← he, hl]
          rw [hf]
        have ihr := ih xs ls hrest (fun g m hm => hpick g m (by simp [hm]))
        simp only [List.map_cons, decodeFields, hgrp]
        rcases hrt with ⟨hnil, hz⟩ | ⟨hne, hsv⟩
        · subst hnil
          simp only [List.isEmpty_nil, if_true, ihr, hz]
          rfl
        · have : l.isEmpty = false := by cases l with
            | nil => exact absurd rfl hne
            | cons _ _ => rfl
          simp only [this, Bool.false_eq_true, if_false, hsv, ihr]
          rfl

theorem pickTag_self : ∀ (T : Ty) (ls : List (List Point)), T.length = ls.length → TagsDistinct T →
    ∀ f l, (f, l) ∈ T.zip ls → pickTag f.edge f.ptype T ls = l := by
  intro T
  induction T with
  | nil => intro ls _ _ f l h; simp at h
  | cons g gs ih =>
    intro ls hlen hnd f l h
    cases ls with
    | nil => simp at h
    | cons m ms =>
      simp only [TagsDistinct, List.map_cons, List.nodup_cons] at hnd
      simp only [List.zip_cons_cons, List.mem_cons, Prod.mk.injEq] at h
      rcases h with ⟨rfl, rfl⟩ | h
      · simp only [pickTag, and_self, if_true]
        rw [pickTag_none f.edge f.ptype gs ms hnd.1]; simp
      · have hmem : (f.edge, f.ptype) ∈ gs.map (fun f => (f.edge, f.ptype)) :=
          List.mem_map_of_mem (f := fun f : Field => (f.edge, f.ptype)) (List.of_mem_zip h).1
        have hne : ¬ (g.edge = f.edge ∧ g.ptype = f.ptype) := by
          intro hc
          apply hnd.1
          rw [hc.1, hc.2]; exact hmem
        simp only [pickTag, hne, if_false]
        exact ih ms (by simpa using hlen) hnd.2 f l h

theorem Aligned.length_eq {N : Num} : ∀ {T : Ty} {xs : List FVal} {ls : List (List Point)}, Aligned N T xs ls →
    T.length = ls.length ∧ T.length = xs.length := by
  intro T
  induction T with
  | nil => intro xs ls h; cases xs <;> cases ls <;> simp [Aligned] at h; exact ⟨rfl, rfl⟩
  | cons f fs ih =>
    intro xs ls h
    cases xs with
    | nil => cases ls <;> simp [Aligned] at h
    | cons x xs => cases ls with
      | nil => simp [Aligned] at h
      | cons l ls =>
        have := ih h.2.2
        simp only [List.length_cons]; omega

/-- **C10 (main): Decode ∘ Encode = id.** For every supported configuration type `T` whose fields
carry distinct tags, and every value of `T` in the supported universe (sizes ≤ 1000, integers within
±(2^53−1), non-empty unique map keys, non-empty flat structs behind pointers): `Encode` succeeds, and
decoding the produced node into the zero value of `T` reports no error and yields exactly the value —
every scalar, pointer (nil or not), slice and array element, map entry and struct field, edge fields
included, together with node id and parent. -/
theorem c10_decode_encode (N : Num) (hN : NumLaws N) (T : Ty) (v : Val)
    (hd : TagsDistinct T) (hok : ValOk T v.fields) :
    ∃ ne, encode N T v = .ok ne ∧
      decode N T ne (zero T) = { val := v, err := false, panic := none } := by
  obtain ⟨ls, hls, hal⟩ := encodeFields_ok N hN T v.fields hok
  refine ⟨{ id := v.id, parent := v.parent, points := collect false T ls, edgePoints := collect true T ls },
    by simp [encode, hls], ?_⟩
  have hlen := hal.length_eq
  have hdf := decodeFields_roundtrip N
    { id := v.id, parent := v.parent, points := collect false T ls, edgePoints := collect true T ls }
    T v.fields ls hal rfl rfl T v.fields ls hal (pickTag_self T ls hlen.1 hd)
  simp only [decode, zero, hdf]
  congr 1
  cases v with
  | mk id parent fields =>
    simp only [Val.mk.injEq, and_true]
    constructor
    · split
      · rename_i h; simp at h; exact h.symm
      · rfl
    · split
      · rename_i h; simp at h; exact h.symm
      · rfl

/-- **The hypothesis on map keys is necessary (known finding).** A map entry with the empty key
does not survive: it comes back under the key "0". -/
theorem c10_empty_key_counter (N : Num) (hN : NumLaws N) :
    let T : Ty := [{ edge := false, ptype := [109], ty := .map .str }]
    let v : Val := { fields := [.map [([], .s [120])]] }
    ∃ ne, encode N T v = .ok ne ∧ (decode N T ne (zero T)).val = { fields := [.map [([48], .s [120])]] } := by
  refine ⟨{ points := [{ type := [109], key := [], text := [120] }] }, by simp [encode, encodeFields, encodeField, encMap, keyed, pointFromScalar, widenS, maxStructureSize, collect], ?_⟩
  simp [decode, decodeFields, zero, zeroF, group, atoi, setValue, setMap, setScalar, tombOdd, setKey, maxStructureSize]

/-- non-vacuity: a type with a slice, a map, a pointer and an edge field; a value of it satisfies the
    hypotheses of `c10_decode_encode` -/
example :
    let T : Ty := [⟨false, [97], .slice (.int 32)⟩, ⟨false, [98], .map .str⟩, ⟨false, [99], .ptr .bool⟩, ⟨true, [97], .scalar (.uint 8)⟩]
    let v : List FVal := [.slice [.i 5, .i (-7)], .map [([107], .s [120])], .ptr none, .scalar (.u 255)]
    TagsDistinct T ∧ ValOk T v := by
  refine ⟨by simp [TagsDistinct], ?_⟩
  simp [ValOk, FOk, SOk, fitsInt, fitsUint, maxSafeInteger]

end Siot.Config
