import Siot.Lemmas.ConfigField
import Siot.Lemmas.ConfigDiffMap
import Siot.Gen.Config
/-
C10 — Typed configuration survives Encode/Decode (and Diff/Merge).
Model: Siot/Model/Config.lean. Lemmas: Siot/Lemmas/Itoa.lean, ConfigRoundtrip*.lean, ConfigField.lean.
-/
namespace Siot.Config
open Siot

/-- Tie A: the two limits of data/encode.go as they are now -/
theorem gen_limits_pinned : Gen.cfgMaxSafeInteger = maxSafeInteger ∧ (Gen.cfgMaxStructureSize : Int) = (maxStructureSize : Nat) := by
  decide

/-- no two fields of the type share tag kind and point type -/
def TagsDistinct (T : Ty) : Prop := (T.map (fun f => (f.edge, f.ptype))).Nodup

/-- every field value lies in the supported universe (`FOk`) -/
def ValOk : Ty → List FVal → Prop
  | [], [] => True
  | f :: fs, x :: xs => FOk f.ty x ∧ ValOk fs xs
  | _, _ => False

/-- the per-field point lists line up with the fields, carry the field's type, and decode back -/
def Aligned (N : Num) : Ty → List FVal → List (List Point) → Prop
  | [], [], [] => True
  | f :: fs, x :: xs, l :: ls => (∀ p ∈ l, p.type = f.ptype) ∧ FieldRT N f.ty x l ∧ Aligned N fs xs ls
  | _, _, _ => False

theorem encodeFields_ok (N : Num) (hN : NumLaws N) : ∀ (T : Ty) (xs : List FVal), ValOk T xs →
    ∃ ls, encodeFields N T xs = .ok ls ∧ Aligned N T xs ls := by
  intro T
  induction T with
  | nil => intro xs h; cases xs with
    | nil => exact ⟨[], rfl, trivial⟩
    | cons _ _ => simp [ValOk] at h
  | cons f fs ih =>
    intro xs h
    cases xs with
    | nil => simp [ValOk] at h
    | cons x xs =>
      obtain ⟨hx, hrest⟩ := h
      obtain ⟨l, hl, ht, hrt⟩ := field_roundtrip N hN f.ptype f.ty x hx
      obtain ⟨ls, hls, hal⟩ := ih xs hrest
      exact ⟨l :: ls, by simp [encodeFields, hl, hls], ht, hrt, hal⟩

/-- the concatenation of the lists of the fields tagged `(e, pt)` -/
def pickTag (e : Bool) (pt : Bytes) : Ty → List (List Point) → List Point
  | f :: fs, l :: ls => if f.edge = e ∧ f.ptype = pt then l ++ pickTag e pt fs ls else pickTag e pt fs ls
  | _, _ => []

theorem filter_own (l : List Point) (pt pt' : Bytes) (h : ∀ p ∈ l, p.type = pt') :
    l.filter (fun p => p.type == pt) = if pt' = pt then l else [] := by
  induction l with
  | nil => split <;> rfl
  | cons p l ih =>
    have hp := h p (by simp)
    have := ih (fun q hq => h q (by simp [hq]))
    simp only [List.filter_cons, hp]
    by_cases hpp : pt' = pt
    · simp only [hpp, beq_self_eq_true, if_true] at this ⊢; rw [this]
    · have : (pt' == pt) = false := by simpa using hpp
      simp only [this, Bool.false_eq_true, if_false, hpp] at *
      assumption

theorem collect_filter (N : Num) (e : Bool) (pt : Bytes) : ∀ (T : Ty) (xs : List FVal) (ls : List (List Point)),
    Aligned N T xs ls → (collect e T ls).filter (fun p => p.type == pt) = pickTag e pt T ls := by
  intro T
  induction T with
  | nil => intro xs ls _; cases ls <;> rfl
  | cons f fs ih =>
    intro xs ls h
    cases xs with
    | nil => cases ls <;> simp [Aligned] at h
    | cons x xs =>
      cases ls with
      | nil => simp [Aligned] at h
      | cons l ls =>
        obtain ⟨ht, _, hrest⟩ := h
        have ihr := ih xs ls hrest
        simp only [collect, pickTag]
        by_cases he : f.edge = e
        · simp only [he, if_true, true_and, List.filter_append, ihr, filter_own l pt f.ptype ht]
          split <;> simp
        · simp only [he, if_false, false_and, ihr]

theorem pickTag_none (e : Bool) (pt : Bytes) : ∀ (T : Ty) (ls : List (List Point)),
    (e, pt) ∉ T.map (fun f => (f.edge, f.ptype)) → pickTag e pt T ls = [] := by
  intro T
  induction T with
  | nil => intro ls _; cases ls <;> rfl
  | cons f fs ih =>
    intro ls h
    cases ls with
    | nil => rfl
    | cons l ls =>
      simp only [List.map_cons, List.mem_cons, not_or] at h
      simp only [pickTag]
      rw [if_neg (by intro hc; exact h.1 (by rw [← hc.1, ← hc.2])), ih ls h.2]

/-- decoding the fields of `T` from the encoded points of a value, starting from the zero value -/
theorem decodeFields_roundtrip (N : Num) (ne : NodeEdge) (T0 : Ty) (xs0 : List FVal) (ls0 : List (List Point))
    (hal0 : Aligned N T0 xs0 ls0)
    (hpts : ne.points = collect false T0 ls0) (hepts : ne.edgePoints = collect true T0 ls0) :
    ∀ (T : Ty) (xs : List FVal) (ls : List (List Point)), Aligned N T xs ls →
      (∀ f l, (f, l) ∈ T.zip ls → pickTag f.edge f.ptype T0 ls0 = l) →
      decodeFields N ne T (T.map (fun f => zeroF f.ty)) = (xs, false, none) := by
  intro T
  induction T with
  | nil => intro xs ls h _; cases xs <;> cases ls <;> simp [Aligned] at h; rfl
  | cons f fs ih =>
    intro xs ls h hpick
    cases xs with
    | nil => cases ls <;> simp [Aligned] at h
    | cons x xs =>
      cases ls with
      | nil => simp [Aligned] at h
      | cons l ls =>
        obtain ⟨_, hrt, hrest⟩ := h
        have hl : pickTag f.edge f.ptype T0 ls0 = l := hpick f l (by simp)
        have hgrp : group f.ptype (if f.edge then ne.edgePoints else ne.points) =
            if l.isEmpty then none else some (l.foldl groupStep {}) := by
          rw [group_eq]
          have hf : (if f.edge then ne.edgePoints else ne.points).filter (fun p => p.type == f.ptype) = l := by
            cases he : f.edge with
            | true =>
              simp only [if_true, hepts]
              rw [collect_filter N true f.ptype T0 xs0 ls0 hal0, ← he, hl]
            | false =>
              simp only [Bool.false_eq_true, if_false, hpts]
              rw [collect_filter N false f.ptype T0 xs0 ls0 hal0, ← he, hl]
          rw [hf]
        have ihr := ih xs ls hrest (fun g m hm => hpick g m (by simp [hm]))
        simp only [List.map_cons, decodeFields, hgrp]
        rcases hrt with ⟨hnil, hz⟩ | ⟨hne, hsv⟩
        · subst hnil
          simp only [List.isEmpty_nil, if_true, ihr, hz]
          rfl
        · have : l.isEmpty = false := by cases l with
            | nil => exact absurd rfl hne
            | cons _ _ => rfl
          simp only [this, Bool.false_eq_true, if_false, hsv, ihr]
          rfl

theorem pickTag_self : ∀ (T : Ty) (ls : List (List Point)), T.length = ls.length → TagsDistinct T →
    ∀ f l, (f, l) ∈ T.zip ls → pickTag f.edge f.ptype T ls = l := by
  intro T
  induction T with
  | nil => intro ls _ _ f l h; simp at h
  | cons g gs ih =>
    intro ls hlen hnd f l h
    cases ls with
    | nil => simp at h
    | cons m ms =>
      simp only [TagsDistinct, List.map_cons, List.nodup_cons] at hnd
      simp only [List.zip_cons_cons, List.mem_cons, Prod.mk.injEq] at h
      rcases h with ⟨rfl, rfl⟩ | h
      · simp only [pickTag, and_self, if_true]
        rw [pickTag_none f.edge f.ptype gs ms hnd.1]; simp
      · have hmem : (f.edge, f.ptype) ∈ gs.map (fun f => (f.edge, f.ptype)) :=
          List.mem_map_of_mem (f := fun f : Field => (f.edge, f.ptype)) (List.of_mem_zip h).1
        have hne : ¬ (g.edge = f.edge ∧ g.ptype = f.ptype) := by
          intro hc
          apply hnd.1
          rw [hc.1, hc.2]; exact hmem
        simp only [pickTag, hne, if_false]
        exact ih ms (by simpa using hlen) hnd.2 f l h

theorem Aligned.length_eq {N : Num} : ∀ {T : Ty} {xs : List FVal} {ls : List (List Point)}, Aligned N T xs ls →
    T.length = ls.length ∧ T.length = xs.length := by
  intro T
  induction T with
  | nil => intro xs ls h; cases xs <;> cases ls <;> simp [Aligned] at h; exact ⟨rfl, rfl⟩
  | cons f fs ih =>
    intro xs ls h
    cases xs with
    | nil => cases ls <;> simp [Aligned] at h
    | cons x xs => cases ls with
      | nil => simp [Aligned] at h
      | cons l ls =>
        have := ih h.2.2
        simp only [List.length_cons]; omega

/-- **C10 (main): Decode ∘ Encode = id.** For every supported configuration type `T` whose fields
carry distinct tags, and every value of `T` in the supported universe (sizes ≤ 1000, integers within
±(2^53−1), non-empty unique map keys, non-empty flat structs behind pointers): `Encode` succeeds, and
decoding the produced node into the zero value of `T` reports no error and yields exactly the value —
every scalar, pointer (nil or not), slice and array element, map entry and struct field, edge fields
included, together with node id and parent. -/
theorem c10_decode_encode (N : Num) (hN : NumLaws N) (T : Ty) (v : Val)
    (hd : TagsDistinct T) (hok : ValOk T v.fields) :
    ∃ ne, encode N T v = .ok ne ∧
      decode N T ne (zero T) = { val := v, err := false, panic := none } := by
  obtain ⟨ls, hls, hal⟩ := encodeFields_ok N hN T v.fields hok
  refine ⟨{ id := v.id, parent := v.parent, points := collect false T ls, edgePoints := collect true T ls },
    by simp [encode, hls], ?_⟩
  have hlen := hal.length_eq
  have hdf := decodeFields_roundtrip N
    { id := v.id, parent := v.parent, points := collect false T ls, edgePoints := collect true T ls }
    T v.fields ls hal rfl rfl T v.fields ls hal (pickTag_self T ls hlen.1 hd)
  simp only [decode, zero, hdf]
  congr 1
  cases v with
  | mk id parent fields =>
    simp only [Val.mk.injEq, and_true]
    constructor
    · split
      · rename_i h; simp at h; exact h.symm
      · rfl
    · split
      · rename_i h; simp at h; exact h.symm
      · rfl

/-- **The hypothesis on map keys is necessary (known finding).** A map entry with the empty key
does not survive: it comes back under the key "0". -/
theorem c10_empty_key_counter (N : Num) (hN : NumLaws N) :
    let T : Ty := [{ edge := false, ptype := [109], ty := .map .str }]
    let v : Val := { fields := [.map [([], .s [120])]] }
    ∃ ne, encode N T v = .ok ne ∧ (decode N T ne (zero T)).val = { fields := [.map [([48], .s [120])]] } := by
  refine ⟨{ points := [{ type := [109], key := [], text := [120] }] }, by simp [encode, encodeFields, encodeField, encMap, keyed, pointFromScalar, widenS, maxStructureSize, collect], ?_⟩
  simp [decode, decodeFields, zero, zeroF, group, atoi, setValue, setMap, setScalar, tombOdd, setKey, maxStructureSize]

/-! ## child lists -/

/-- every child list lines up with a `child` field, whose element type has distinct tags, and holds values of it -/
def KidsOk : List ChildField → List (List Val) → Prop
  | [], [] => True
  | cf :: cfs, ks :: kss => TagsDistinct cf.ty ∧ (∀ k ∈ ks, ValOk cf.ty k.fields) ∧ KidsOk cfs kss
  | _, _ => False

/-- the encoded children of the fields `cfs`: per field its elements in order, each decoding to its element -/
inductive KRel (N : Num) : List ChildField → List (List Val) → List (Bytes × NodeEdge) → Prop
  | nil : KRel N [] [] []
  | cons (cf : ChildField) (cfs : List ChildField) (ks : List Val) (kss : List (List Val)) (nes : List NodeEdge)
      (rest : List (Bytes × NodeEdge)) :
      nes.map (fun ne => decode N cf.ty ne (zero cf.ty)) = ks.map (fun k => ({ val := k, err := false, panic := none } : DecodeOut)) →
      KRel N cfs kss rest → KRel N (cf :: cfs) (ks :: kss) (nes.map (fun ne => (cf.ctype, ne)) ++ rest)

theorem encode_kid_list (N : Num) (hN : NumLaws N) (T : Ty) (hd : TagsDistinct T) : ∀ (ks : List Val), (∀ k ∈ ks, ValOk T k.fields) →
    ∃ nes, mapM' (fun k => encode N T k) ks = .ok nes ∧
      nes.map (fun ne => decode N T ne (zero T)) = ks.map (fun k => ({ val := k, err := false, panic := none } : DecodeOut)) := by
  intro ks
  induction ks with
  | nil => intro _; exact ⟨[], rfl, rfl⟩
  | cons k ks ih =>
    intro h
    obtain ⟨ne, hne, hdec⟩ := c10_decode_encode N hN T k hd (h k (by simp))
    obtain ⟨nes, hnes, hall⟩ := ih (fun x hx => h x (by simp [hx]))
    exact ⟨ne :: nes, by simp [mapM', hne, hnes], by simp [hdec, hall]⟩

theorem encodeKids_ok (N : Num) (hN : NumLaws N) : ∀ (kfs : List ChildField) (kids : List (List Val)), KidsOk kfs kids →
    ∃ cs, encodeKids N kfs kids = .ok cs ∧ KRel N kfs kids cs := by
  intro kfs
  induction kfs with
  | nil =>
    intro kids h
    cases kids with
    | nil => exact ⟨[], rfl, .nil⟩
    | cons _ _ => simp [KidsOk] at h
  | cons cf cfs ih =>
    intro kids h
    cases kids with
    | nil => simp [KidsOk] at h
    | cons ks kss =>
      obtain ⟨hd, hks, hrest⟩ := h
      obtain ⟨nes, hnes, hall⟩ := encode_kid_list N hN cf.ty hd ks hks
      obtain ⟨rest, hr, hrel⟩ := ih kss hrest
      exact ⟨nes.map (fun ne => (cf.ctype, ne)) ++ rest, by simp [encodeKids, hnes, hr], .cons cf cfs ks kss nes rest hall hrel⟩

theorem KRel.types {N : Num} {cfs : List ChildField} {kss : List (List Val)} {cs : List (Bytes × NodeEdge)}
    (h : KRel N cfs kss cs) : ∀ c ∈ cs, c.1 ∈ cfs.map (·.ctype) := by
  induction h with
  | nil => intro c hc; cases hc
  | cons cf cfs ks kss nes rest _ _ ih =>
    intro c hc
    simp only [List.mem_append, List.mem_map] at hc
    rcases hc with ⟨ne, _, rfl⟩ | hc
    · simp
    · simp only [List.map_cons, List.mem_cons]
      exact Or.inr (ih c hc)

theorem decodeKids_roundtrip (N : Num) (all : List (Bytes × NodeEdge)) :
    ∀ (kfs : List ChildField) (kids : List (List Val)) (cs : List (Bytes × NodeEdge)), KRel N kfs kids cs →
      (kfs.map (·.ctype)).Nodup →
      (∀ cf ∈ kfs, all.filter (fun c => c.1 == cf.ctype) = cs.filter (fun c => c.1 == cf.ctype)) →
      decodeKids N all kfs (kfs.map (fun _ => [])) = (kids, false, none) := by
  intro kfs kids cs h
  induction h with
  | nil => intro _ _; rfl
  | cons cf cfs ks kss nes rest hdec hrel ih =>
    intro hnd hall
    simp only [List.map_cons, List.nodup_cons] at hnd
    have hown : (nes.map (fun ne => (cf.ctype, ne))).filter (fun c => c.1 == cf.ctype) = nes.map (fun ne => (cf.ctype, ne)) := by
      rw [List.filter_eq_self]; intro c hc; simp only [List.mem_map] at hc; obtain ⟨_, _, rfl⟩ := hc; simp
    have hrest0 : rest.filter (fun c => c.1 == cf.ctype) = [] := by
      rw [List.filter_eq_nil_iff]
      intro c hc
      have := hrel.types c hc
      intro heq
      apply hnd.1
      have : c.1 = cf.ctype := by simpa using heq
      rw [← this]; assumption
    have hfil : all.filter (fun c => c.1 == cf.ctype) = nes.map (fun ne => (cf.ctype, ne)) := by
      rw [hall cf (by simp), List.filter_append, hown, hrest0, List.append_nil]
    have ihr := ih hnd.2 (by
      intro cf' hcf'
      rw [hall cf' (by simp [hcf']), List.filter_append]
      have : (nes.map (fun ne => (cf.ctype, ne))).filter (fun c => c.1 == cf'.ctype) = [] := by
        rw [List.filter_eq_nil_iff]; intro c hc; simp only [List.mem_map] at hc; obtain ⟨_, _, rfl⟩ := hc
        intro heq
        apply hnd.1
        have : cf.ctype = cf'.ctype := by simpa using heq
        rw [this]; exact List.mem_map_of_mem (f := (·.ctype)) hcf'
      rw [this, List.nil_append])
    have hlen : nes.length = ks.length := by
      have := congrArg List.length hdec
      simpa using this
    have hfield : decodeKidField N cf all [] = (ks, false, none) := by
      unfold decodeKidField
      simp only [hfil]
      cases hn : nes with
      | nil =>
        have : ks = [] := List.eq_nil_of_length_eq_zero (by rw [← hlen, hn]; rfl)
        subst this
        rfl
      | cons ne0 nes0 =>
        rw [← hn]
        have hne : (nes.map (fun ne => (cf.ctype, ne))).isEmpty = false := by rw [hn]; rfl
        simp only [hne, Bool.false_eq_true, if_false, List.map_map]
        have hcomp : ((fun (c : Bytes × NodeEdge) => decode N cf.ty c.2 (zero cf.ty)) ∘ fun ne => (cf.ctype, ne)) =
            fun ne => decode N cf.ty ne (zero cf.ty) := rfl
        rw [hcomp, hdec]
        have hfind : (ks.map (fun k => ({ val := k, err := false, panic := none } : DecodeOut))).find? (fun o => o.panic.isSome) = none := by
          rw [List.find?_eq_none]; intro o ho; simp only [List.mem_map] at ho; obtain ⟨_, _, rfl⟩ := ho; simp
        have hany : (ks.map (fun k => ({ val := k, err := false, panic := none } : DecodeOut))).any (fun o => o.err) = false := by
          rw [List.any_eq_false]; intro o ho; simp only [List.mem_map] at ho; obtain ⟨_, _, rfl⟩ := ho; simp
        have hvals : (ks.map (fun k => ({ val := k, err := false, panic := none } : DecodeOut))).map (fun o => o.val) = ks := by
          rw [List.map_map]; exact List.map_id' ks
        have h1 : nes.map ((fun (x : DecodeOut) => x.val) ∘ fun ne => decode N cf.ty ne (zero cf.ty)) = ks := by
          rw [← List.map_map, hdec]; exact hvals
        refine Prod.ext h1 (Prod.ext ?_ ?_)
        · exact hany
        · show ((ks.map (fun k => ({ val := k, err := false, panic := none } : DecodeOut))).find? (fun o => o.panic.isSome)).bind (·.panic) = none
          rw [hfind]; rfl
    simp only [List.map_cons, decodeKids, hfield, ihr, Bool.or_self]

/-- **C10 (child lists on decode).** A node handed to `Decode` together with its children — every element of every
`child` field encoded as a child node of the field's node type — decodes into the zero value as the same value with
the same child lists: every list with its elements in order, the empty ones left nil, children of other types ignored
by each field. (One level: the element types have no child fields of their own.) -/
theorem c10_decode_encode_children (N : Num) (hN : NumLaws N) (T : Ty) (kfs : List ChildField) (v : Val) (kids : List (List Val))
    (hd : TagsDistinct T) (hok : ValOk T v.fields) (hkd : (kfs.map (·.ctype)).Nodup) (hk : KidsOk kfs kids) :
    ∃ ne cs, encode N T v = .ok ne ∧ encodeKids N kfs kids = .ok cs ∧
      decodeC N T kfs ne cs (zero T) (kfs.map (fun _ => [])) = ({ val := v, err := false, panic := none }, kids) := by
  obtain ⟨ne, hne, hdec⟩ := c10_decode_encode N hN T v hd hok
  obtain ⟨cs, hcs, hrel⟩ := encodeKids_ok N hN kfs kids hk
  refine ⟨ne, cs, hne, hcs, ?_⟩
  unfold decodeC
  simp only [hdec, decodeKids_roundtrip N cs kfs kids cs hrel hkd (fun _ _ => rfl), Bool.or_self]

/-! ## Diff / Merge -/

/-- keys of flat structs come from the field tag or the camel-cased Go field name: never empty -/
def KeysOk : FieldTy → Prop
  | .struct fs => ∀ f ∈ fs, f.1 ≠ []
  | .ptrStruct fs => ∀ f ∈ fs, f.1 ≠ []
  | _ => True

/-- **Field diff/merge.** For every field type and every two values of it in the supported universe, `DiffPoints`
succeeds for the field, emits points of the field's type only, and merging them into the old value gives the new
one (`FNear`: equal, up to Go's `==` on floats and the order of map entries). -/
theorem field_diff (N : Num) (hN : NumLaws N) (pt : Bytes) (ty : FieldTy) (b a : FVal) (hb : FOk ty b) (ha : FOk ty a)
    (hk : KeysOk ty) :
    ∃ ps, diffField N pt ty b a = .ok ps ∧ (∀ p ∈ ps, p.type = pt) ∧ DiffRT N ty b a ps := by
  cases ty <;> cases b <;> (try (simp only [FOk] at hb; done)) <;> cases a <;> (try (simp only [FOk] at ha; done))
  case scalar.scalar.scalar k x y => exact diff_scalar N hN pt k x y (by simpa only [FOk] using ha)
  case ptr.ptr.ptr k x y =>
    exact diff_ptr N hN pt k x y (by intro v hv; subst hv; simpa only [FOk] using ha)
  case slice.slice.slice k x y => exact diff_slice N hN pt k x y hb ha
  case array.array.array n k x y => exact diff_array N hN pt n k x y hb ha
  case map.map.map k x y => exact diff_map N hN pt k x y hb ha
  case struct.struct.struct fs x y => exact diff_struct N hN pt fs x y hb ha hk
  case ptrStruct.ptrStruct.ptrStruct fs x y => exact diff_ptrStruct N hN pt fs x y hb ha hk

/-- the per-field diff lists line up with the fields: nothing for `edgepoint` fields (DiffPoints skips them), and
for a `point` field its own points, which merge the old value into the new one -/
def DAligned (N : Num) : Ty → List FVal → List FVal → List (List Point) → Prop
  | [], [], [], [] => True
  | f :: fs, b :: bs, a :: as, l :: ls =>
    (if f.edge then l = [] else (∀ p ∈ l, p.type = f.ptype) ∧ DiffRT N f.ty b a l) ∧ DAligned N fs bs as ls
  | _, _, _, _ => False

/-- the merged fields: `point` fields hold the new value, `edgepoint` fields are untouched -/
def Merged (N : Num) : Ty → List FVal → List FVal → List FVal → Prop
  | [], [], [], [] => True
  | f :: fs, b :: bs, a :: as, r :: rs => (if f.edge then r = b else FNear N f.ty r a) ∧ Merged N fs bs as rs
  | _, _, _, _ => False

theorem diff_ok (N : Num) (hN : NumLaws N) : ∀ (T : Ty) (bs as : List FVal), ValOk T bs → ValOk T as →
    (∀ f ∈ T, KeysOk f.ty) → ∃ ls, diff N T bs as = .ok ls.flatten ∧ DAligned N T bs as ls := by
  intro T
  induction T with
  | nil =>
    intro bs as hb ha _
    cases bs with
    | nil => cases as with
      | nil => exact ⟨[], rfl, trivial⟩
      | cons _ _ => simp [ValOk] at ha
    | cons _ _ => simp [ValOk] at hb
  | cons f fs ih =>
    intro bs as hb ha hk
    cases bs with
    | nil => simp [ValOk] at hb
    | cons b bs =>
      cases as with
      | nil => simp [ValOk] at ha
      | cons a as =>
        obtain ⟨ls, hls, hal⟩ := ih bs as hb.2 ha.2 (fun g hg => hk g (by simp [hg]))
        by_cases he : f.edge = true
        · exact ⟨[] :: ls, by simp [diff, he, hls], by simp only [DAligned, he, if_true]; exact ⟨trivial, hal⟩⟩
        · obtain ⟨ps, hps, ht, hrt⟩ := field_diff N hN f.ptype f.ty b a hb.1 ha.1 (hk f (by simp))
          refine ⟨ps :: ls, by simp [diff, he, hps, hls], ?_⟩
          simp only [DAligned, he, Bool.false_eq_true, if_false]
          exact ⟨⟨ht, hrt⟩, hal⟩

theorem flatten_filter (N : Num) (pt : Bytes) : ∀ (T : Ty) (bs as : List FVal) (ls : List (List Point)),
    DAligned N T bs as ls → ls.flatten.filter (fun p => p.type == pt) = pickTag false pt T ls := by
  intro T
  induction T with
  | nil => intro bs as ls h; cases bs <;> cases as <;> cases ls <;> simp [DAligned] at h; rfl
  | cons f fs ih =>
    intro bs as ls h
    cases bs with
    | nil => simp [DAligned] at h
    | cons b bs => cases as with
      | nil => simp [DAligned] at h
      | cons a as => cases ls with
        | nil => simp [DAligned] at h
        | cons l ls =>
          obtain ⟨hf, hrest⟩ := h
          have ihr := ih bs as ls hrest
          simp only [List.flatten_cons, List.filter_append, ihr, pickTag]
          by_cases he : f.edge = true
          · simp only [he, if_true] at hf
            subst hf
            simp [he]
          · simp only [he, Bool.false_eq_true, if_false] at hf
            have he' : f.edge = false := by simpa using he
            rw [filter_own l pt f.ptype hf.1]
            simp only [he', true_and]
            split <;> simp

theorem DAligned.length_eq {N : Num} : ∀ {T : Ty} {bs as : List FVal} {ls : List (List Point)}, DAligned N T bs as ls →
    T.length = ls.length := by
  intro T
  induction T with
  | nil => intro bs as ls h; cases bs <;> cases as <;> cases ls <;> simp [DAligned] at h; rfl
  | cons f fs ih =>
    intro bs as ls h
    cases bs with
    | nil => simp [DAligned] at h
    | cons b bs => cases as with
      | nil => simp [DAligned] at h
      | cons a as => cases ls with
        | nil => simp [DAligned] at h
        | cons l ls => simp [ih h.2]

/-- merging the diff points field by field -/
theorem mergeFields (N : Num) (ne : NodeEdge) (hne : ne.edgePoints = []) (T0 : Ty) (ls0 : List (List Point))
    (hpts : ∀ pt, ne.points.filter (fun p => p.type == pt) = pickTag false pt T0 ls0) :
    ∀ (T : Ty) (bs as : List FVal) (ls : List (List Point)), DAligned N T bs as ls →
      (∀ f l, (f, l) ∈ T.zip ls → f.edge = false → pickTag false f.ptype T0 ls0 = l) →
      ∃ rs, decodeFields N ne T bs = (rs, false, none) ∧ Merged N T bs as rs := by
  intro T
  induction T with
  | nil => intro bs as ls h _; cases bs <;> cases as <;> cases ls <;> simp [DAligned] at h; exact ⟨[], rfl, trivial⟩
  | cons f fs ih =>
    intro bs as ls h hpick
    cases bs with
    | nil => simp [DAligned] at h
    | cons b bs => cases as with
      | nil => simp [DAligned] at h
      | cons a as => cases ls with
        | nil => simp [DAligned] at h
        | cons l ls =>
          obtain ⟨hf, hrest⟩ := h
          obtain ⟨rs, hrs, hm⟩ := ih bs as ls hrest (fun g m hg => hpick g m (by simp [hg]))
          by_cases he : f.edge = true
          · have hgrp : group f.ptype (if f.edge then ne.edgePoints else ne.points) = none := by
              rw [group_eq]; simp [he, hne]
            refine ⟨b :: rs, by simp only [decodeFields, hgrp, hrs]; rfl, ?_⟩
            simp only [Merged, he, if_true]
            exact ⟨trivial, hm⟩
          · have he' : f.edge = false := by simpa using he
            simp only [he, Bool.false_eq_true, if_false] at hf
            have hl : pickTag false f.ptype T0 ls0 = l := hpick f l (by simp) he'
            have hgrp : group f.ptype (if f.edge then ne.edgePoints else ne.points) =
                if l.isEmpty then none else some (l.foldl groupStep {}) := by
              rw [group_eq]
              simp only [he, Bool.false_eq_true, if_false, hpts f.ptype, hl]
            rcases hf.2 with ⟨hnil, hnear⟩ | ⟨hnn, r, hsv, hnear⟩
            · subst hnil
              refine ⟨b :: rs, by simp only [decodeFields, hgrp, List.isEmpty_nil, if_true, hrs]; rfl, ?_⟩
              simp only [Merged, he, Bool.false_eq_true, if_false]
              exact ⟨hnear, hm⟩
            · have : l.isEmpty = false := by cases l with
                | nil => exact absurd rfl hnn
                | cons _ _ => rfl
              refine ⟨r :: rs, by simp only [decodeFields, hgrp, this, Bool.false_eq_true, if_false, hsv, hrs]; rfl, ?_⟩
              simp only [Merged, he, Bool.false_eq_true, if_false]
              exact ⟨hnear, hm⟩

/-- **C10 (second half): Merge ∘ Diff.** For every supported configuration type `T` with distinct tags and every
ordered pair of values `b` (before), `a` (after) of `T` in the supported universe — sizes ≤ 1000, integers within
±(2^53−1), non-empty unique map keys — `DiffPoints b a` succeeds, and `MergePoints` of the produced points into `b`
reports no error and leaves every `point` field holding the value it has in `a` (`Merged` / `FNear`): scalars and
struct fields equal (for floats: equal or `==`, since no point is emitted for a field Go calls unchanged), pointers
equal including nil, slices of the new length with the new elements whether they grew or shrank, arrays element by
element, maps with exactly the new key set (removed entries gone) — and every `edgepoint` field untouched. -/
theorem c10_merge_diff (N : Num) (hN : NumLaws N) (T : Ty) (b a : Val)
    (hd : TagsDistinct T) (hk : ∀ f ∈ T, KeysOk f.ty) (hb : ValOk T b.fields) (ha : ValOk T a.fields) (hid : b.id ≠ []) :
    ∃ pts, diff N T b.fields a.fields = .ok pts ∧
      ∃ r, mergePoints N T b.id pts b = some { val := { id := b.id, parent := b.parent, fields := r }, err := false, panic := none } ∧
        Merged N T b.fields a.fields r := by
  obtain ⟨ls, hls, hal⟩ := diff_ok N hN T b.fields a.fields hb ha hk
  refine ⟨ls.flatten, hls, ?_⟩
  obtain ⟨rs, hrs, hm⟩ := mergeFields N { id := b.id, points := ls.flatten } rfl T ls
    (fun pt => flatten_filter N pt T b.fields a.fields ls hal) T b.fields a.fields ls hal
    (fun f l hfl he => by have := pickTag_self T ls hal.length_eq hd f l hfl; rw [he] at this; exact this)
  refine ⟨rs, ?_, hm⟩
  have hie : b.id.isEmpty = false := by
    cases hbi : b.id with
    | nil => exact absurd hbi hid
    | cons _ _ => rfl
  simp only [mergePoints, hie, Bool.false_eq_true, ne_eq, not_true_eq_false, or_self, if_false, decode, hrs,
    List.isEmpty_nil, if_true]

/-- non-vacuity: a type with a slice, a map, a pointer and an edge field; a value of it satisfies the
    hypotheses of `c10_decode_encode` -/
example :
    let T : Ty := [⟨false, [97], .slice (.int 32)⟩, ⟨false, [98], .map .str⟩, ⟨false, [99], .ptr .bool⟩, ⟨true, [97], .scalar (.uint 8)⟩]
    let v : List FVal := [.slice [.i 5, .i (-7)], .map [([107], .s [120])], .ptr none, .scalar (.u 255)]
    TagsDistinct T ∧ ValOk T v := by
  refine ⟨by simp [TagsDistinct], ?_⟩
  simp [ValOk, FOk, SOk, fitsInt, fitsUint, maxSafeInteger]

/-- non-vacuity of `c10_merge_diff`: a slice that shrinks, a map entry that is removed, a pointer that becomes nil and
    a flat struct — both values satisfy the hypotheses -/
example :
    let T : Ty := [⟨false, [97], .slice (.int 32)⟩, ⟨false, [98], .map .str⟩, ⟨false, [99], .ptr .bool⟩,
                   ⟨false, [100], .struct [([107], .f64), ([108], .str)]⟩]
    let b : List FVal := [.slice [.i 5, .i (-7), .i 9], .map [([107], .s [120]), ([109], .s [])], .ptr (some (.b true)), .struct [.f 0, .s [1]]]
    let a : List FVal := [.slice [.i 5], .map [([109], .s [121])], .ptr none, .struct [.f 1, .s [1]]]
    TagsDistinct T ∧ (∀ f ∈ T, KeysOk f.ty) ∧ ValOk T b ∧ ValOk T a := by
  refine ⟨by simp [TagsDistinct], by simp [KeysOk]; rintro a b (⟨rfl, _⟩ | ⟨rfl, _⟩) <;> simp, ?_, ?_⟩ <;>
    simp [ValOk, FOk, SOk, fitsInt, fitsUint, maxSafeInteger]

end Siot.Config
