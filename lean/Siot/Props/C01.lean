import Siot.Lemmas.LWW
import Siot.Lemmas.StoreSteps
import Siot.Gen.Store
/-
C01 — Newest point wins, whatever the delivery order or batching.
Model: Siot/Model/Store.lean (normPoint, collapse, mergeBatch, nodePoints, edgePoints).
-/
namespace Siot.Store
open Siot

/-- Tie A: the store normalises the key ("" → "0") and the sign of zero before collapsing. -/
theorem gen_normalize_pinned : Gen.normalizePointsCmps = ["==\"\"", "==0"] := by decide

/-- **C01 (main): a read returns exactly the newest delivered point of every identity.**
For ANY list of batches delivered to one node (or one edge) — any order, any grouping into batches,
with duplicates and re-deliveries — if two different delivered points of one identity never share a
timestamp, then the stored rows are exactly the delivered points that are newest for their identity
(type, key with "" read as "0"), with all of their fields. -/
theorem c01_read_is_newest (bs : List (List Point)) (hadm : Admissible (delivered bs)) (p : Point) :
    p ∈ rowsAfter [] bs ↔ Newest (delivered bs) p := by
  have h := rowsAfter_lww bs [] [] ⟨by simp [IdUnique], by simp, by simp⟩
  simp only [List.nil_append] at h
  constructor
  · exact h.newest p
  · intro hN
    obtain ⟨r, hr, hrs⟩ := h.cover p hN.1
    have hrN := h.newest r hr
    have h1 := hN.2 r hrN.1 hrs
    have h2 := hrN.2 p hN.1 (by rw [sameId_symm]; exact hrs)
    have : r = p := hadm r hrN.1 p hN.1 hrs (by omega)
    rw [← this]; exact hr

/-- **no second point for an identity**, with no hypothesis at all on the deliveries -/
theorem c01_one_row_per_identity (bs : List (List Point)) : IdUnique (rowsAfter [] bs) :=
  (rowsAfter_lww bs [] [] ⟨by simp [IdUnique], by simp, by simp⟩).uniq

/-- **order, batching, duplication and re-sending are irrelevant**: two histories that deliver the
same set of points leave the same rows -/
theorem c01_order_batching_irrelevant (bs bs' : List (List Point))
    (hsame : ∀ p, p ∈ delivered bs ↔ p ∈ delivered bs') (hadm : Admissible (delivered bs)) :
    ∀ p, p ∈ rowsAfter [] bs ↔ p ∈ rowsAfter [] bs' := by
  have hadm' : Admissible (delivered bs') := by
    intro a ha b hb
    exact hadm a ((hsame a).mpr ha) b ((hsame b).mpr hb)
  intro p
  rw [c01_read_is_newest bs hadm, c01_read_is_newest bs' hadm']
  unfold Newest
  constructor
  · rintro ⟨h1, h2⟩; exact ⟨(hsame p).mp h1, fun q hq => h2 q ((hsame q).mpr hq)⟩
  · rintro ⟨h1, h2⟩; exact ⟨(hsame p).mpr h1, fun q hq => h2 q ((hsame q).mp hq)⟩

/-- **a point older than the one already held never changes what is read** -/
theorem c01_stale_is_noop (rows : List Point) (p old : Point) (hu : IdUnique rows)
    (hf : rows.find? (sameId (normPoint p)) = some old) (hstale : (normPoint p).time < old.time) :
    (mergeBatch rows (collapse ([p].map normPoint))).1 = rows := by
  simp only [List.map_cons, List.map_nil, collapse, List.find?_nil, mergeBatch, hf]
  rw [if_neg (by omega)]

/-- the rows `nodePoints` leaves for the written node are the merge-loop result, and every other
    node keeps its rows -/
theorem c01_nodePoints_rows (st st' : St) (id : Bytes) (pts : List Point) (h : nodePoints st id pts = .ok st') (n : Bytes) :
    ptsOf st' n = if n = id then (mergeBatch (ptsOf st id) (collapse (pts.map normPoint))).1 else ptsOf st n := by
  unfold nodePoints at h
  split at h
  · cases h
  · simp only [] at h
    injection h with h
    rw [← h]
    exact ptsOf_write st id _ n

/-- non-vacuity: the colliding identities ("ab","") / ("a","b") and ("x","") / ("x","0") in one batch -/
example :
    let b : List Point := [{ type := [97, 98], key := [], time := 3 }, { type := [97], key := [98], time := 4 },
                           { type := [120], key := [], time := 5 }, { type := [120], key := [48], time := 6 }]
    Admissible (delivered [b]) ∧
    rowsAfter [] [b] = [{ type := [97, 98], key := [48], time := 3 }, { type := [97], key := [98], time := 4 },
                        { type := [120], key := [48], time := 6 }] := by
  refine ⟨?_, by decide⟩
  unfold Admissible
  decide

end Siot.Store
