import Siot.Lemmas.ModbusE2E
import Siot.Props.C18
import Siot.Gen.ModbusFraming
/-
C19 — Modbus client, server and transports agree end to end.
Model: Siot/Model/ModbusE2E.lean on top of the server model of C18.
-/
namespace Siot.Modbus
open Siot Siot.Modbus.Spec

/-- Tie A: CRC-16 parameters of RtuCrc (init 0xFFFF, reflected polynomial 0xA001, 8 shifts, byte swap),
the minimum frame lengths of both transports, the TCP header layout and the buffer size. -/
theorem gen_framing_pinned :
    Gen.mbMaxADULen = 260 ∧
    Gen.mbRtuCrcLits = ["65535", "8", "0", "1", "0", "1", "40961", "1", "8", "8"] ∧
    Gen.mbCheckRtuCrcCmps = ["<4", "!=crcPacket"] ∧ Gen.mbTcpDecodeCmps = ["<9"] ∧
    Gen.mbTcpEncodeLits = ["8", "0", "4", "2", "6", "7", "8"] ∧
    Gen.mbRespReadBitsCountCmps = ["<1", "<0", "==1"] := by
  decide

/-- **C19 register reads agree.** For every register file (16-bit values), unit id, transaction id,
framing (RTU or TCP), function code 3 or 4, address and count within the protocol limits with all
addressed registers present: the client returns exactly `count` values, and they are the values the
server holds at `address … address+count-1`. -/
theorem c19_read_regs_agrees (fr : Framing) (tx : Nat) (htx : tx < 65536) (id : UInt8) (rs : Regs)
    (h16 : Regs16 rs) (fc : Nat) (hfc : fc = 3 ∨ fc = 4) (a n : Nat) (ha : a < 65536) (hn1 : 1 ≤ n)
    (hn : n ≤ 125) (hr : a + n ≤ 65536) (vals : List Nat)
    (hv : allSome ((List.range n).map (fun i => readReg rs (a + i))) = some vals) :
    clientReadRegs fr tx id rs fc a n = .ok vals ∧ vals.length = n := by
  have hlen : vals.length = n := by rw [allSome_length _ _ hv]; simp
  refine ⟨?_, hlen⟩
  have hp := processRequest_readWords rs fc hfc a n ha hn1 hn hr vals hv
  have hfc256 : fc < 256 := by rcases hfc with rfl | rfl <;> omega
  have hvl : ∀ v ∈ vals, v < 65536 := by
    intro v hvm
    have := allSome_mem _ _ hv v hvm
    simp only [List.mem_map] at this
    obtain ⟨i, _, hi⟩ := this
    exact readReg_lt rs h16 _ _ hi
  unfold clientReadRegs maxADULen
  rw [reqRead_eq] at hp ⊢
  rw [exchange_normal fr tx htx id rs rs fc hfc256 _ _ (by simp) fc hfc256 (u8 (n * 2 % 256)) (vals.flatMap be16)
    (by have := flatMap_be16_length vals; simp only [List.length_cons]; omega) hp]
  simp only [ne_eq, not_true_eq_false, if_false]
  -- decode the response
  cases vals with
  | nil => simp at hlen; omega
  | cons v0 vs =>
    have hfm : (v0 :: vs).flatMap be16 = u8 (v0 / 256 % 256) :: u8 (v0 % 256) :: vs.flatMap be16 := by
      simp [List.flatMap_cons, be16]
    unfold respReadRegs
    rw [hfm]
    simp only []
    rw [if_neg (by rcases hfc with rfl | rfl <;> omega)]
    have hbc : (u8 (n * 2 % 256)).toNat / 2 = n := by rw [u8_toNat _ (by omega)]; omega
    rw [hbc]
    have hl2 : (u8 (v0 / 256 % 256) :: u8 (v0 % 256) :: vs.flatMap be16).length = n * 2 := by
      rw [← hfm, flatMap_be16_length, hlen]; omega
    rw [if_neg (by simp only [List.length_cons] at hl2 ⊢; omega)]
    rw [List.take_of_length_le (by omega), ← hfm, words_be16 _ hvl]

/-- a read outside the limits, crossing 0xFFFF or touching a missing register is answered with an
    exception by the server (C18) and returned as an error by the client — never as values -/
theorem c19_read_regs_error (fr : Framing) (tx : Nat) (htx : tx < 65536) (id : UInt8) (rs : Regs)
    (fc : Nat) (hfc : fc = 3 ∨ fc = 4) (a n : Nat) (ha : a < 65536) (hn16 : n < 65536) (code rfc : Nat)
    (hrfc : rfc < 256) (hne : rfc ≠ fc)
    (hp : processRequest rs fc (reqRead a n) = (.exception rfc code, rs)) :
    clientReadRegs fr tx id rs fc a n = .err "fc" := by
  have hfc256 : fc < 256 := by rcases hfc with rfl | rfl <;> omega
  unfold clientReadRegs maxADULen
  rw [reqRead_eq] at hp ⊢
  rw [exchange_exception fr tx htx id rs rs fc hfc256 _ _ (by simp) rfc hrfc code hp]
  simp only [ne_eq, hne, not_false_eq_true, if_true]

/-! ### bit reads -/
theorem processRequest_readBits (rs : Regs) (fc : Nat) (hfc : fc = 1 ∨ fc = 2) (a n : Nat)
    (ha : a < 65536) (hn1 : 1 ≤ n) (hn : n ≤ 2000) (hr : a + n ≤ 65536) (bits : List Bool)
    (hv : allSome ((List.range n).map (fun i => readCoil rs (a + i))) = some bits) :
    processRequest rs fc (reqRead a n) = (.normal fc (u8 ((n + 7) / 8) :: statusBytes ((n + 7) / 8) bits), rs) := by
  have hmin : minRequestLen fc = 5 := by rcases hfc with rfl | rfl <;> rfl
  unfold processRequest
  rw [hmin, reqRead_eq]
  rw [if_neg (by simp), if_pos hfc]
  unfold reqReadBits
  simp only [word_put a ha, word_put n (by omega), maxReadBits, addressSpace, readBits_eq, hv]
  rw [if_neg (by omega), if_neg (by omega), Nat.mod_eq_of_lt (by omega)]

theorem statusByte_lt (bits : List Bool) (j : Nat) : statusByte bits j < 256 := by
  unfold statusByte
  simp only [List.range_succ, List.range_zero, List.nil_append, List.cons_append, List.foldl_cons, List.foldl_nil]
  generalize bits.getD (8 * j + 0) false = b0
  generalize bits.getD (8 * j + 1) false = b1
  generalize bits.getD (8 * j + 2) false = b2
  generalize bits.getD (8 * j + 3) false = b3
  generalize bits.getD (8 * j + 4) false = b4
  generalize bits.getD (8 * j + 5) false = b5
  generalize bits.getD (8 * j + 6) false = b6
  generalize bits.getD (8 * j + 7) false = b7
  cases b0 <;> cases b1 <;> cases b2 <;> cases b3 <;> cases b4 <;> cases b5 <;> cases b6 <;> cases b7 <;> decide

theorem range_map_getD (bits : List Bool) : (List.range bits.length).map (fun i => bits.getD i false) = bits := by
  apply List.ext_getElem
  · simp
  · intro i h1 h2
    simp at h1
    simp [List.getD, h1]

/-- **C19 coil / discrete-input reads agree.** Within the limits and with all addressed coils
present, the client returns exactly `count` values — one per requested coil, not one per response
byte — and they are the coils the server holds. -/
theorem c19_read_bits_agrees (fr : Framing) (tx : Nat) (htx : tx < 65536) (id : UInt8) (rs : Regs)
    (fc : Nat) (hfc : fc = 1 ∨ fc = 2) (a n : Nat) (ha : a < 65536) (hn1 : 1 ≤ n)
    (hn : n ≤ 2000) (hr : a + n ≤ 65536) (bits : List Bool)
    (hv : allSome ((List.range n).map (fun i => readCoil rs (a + i))) = some bits) :
    clientReadBits fr tx id rs fc a n = .ok bits ∧ bits.length = n := by
  have hlen : bits.length = n := by rw [allSome_length _ _ hv]; simp
  refine ⟨?_, hlen⟩
  have hp := processRequest_readBits rs fc hfc a n ha hn1 hn hr bits hv
  have hfc256 : fc < 256 := by rcases hfc with rfl | rfl <;> omega
  unfold clientReadBits maxADULen
  rw [reqRead_eq] at hp ⊢
  have hsl : (statusBytes ((n + 7) / 8) bits).length = (n + 7) / 8 := by simp [statusBytes]
  rw [exchange_normal fr tx htx id rs rs fc hfc256 _ _ (by simp) fc hfc256 (u8 ((n + 7) / 8)) (statusBytes ((n + 7) / 8) bits)
    (by simp only [List.length_cons, hsl]; omega) hp]
  unfold respReadBitsCount
  simp only []
  rw [if_neg (by rcases hfc with rfl | rfl <;> omega)]
  have hbc : (u8 ((n + 7) / 8)).toNat = (n + 7) / 8 := u8_toNat _ (by omega)
  rw [if_neg (by rw [hbc]; simp only [List.length_cons, hsl]; omega)]
  congr 1
  rw [← hlen] at hsl ⊢
  conv => rhs; rw [← range_map_getD bits]
  apply List.map_congr_left
  intro i hi
  simp only [List.mem_range] at hi
  have hj : i / 8 < (bits.length + 7) / 8 := by omega
  have hget : (statusBytes ((bits.length + 7) / 8) bits).getD (i / 8) 0 = u8 (statusByte bits (i / 8)) := by
    simp [statusBytes, List.getD, hj]
  rw [hget, u8_toNat _ (statusByte_lt bits (i / 8))]
  have hb := statusByte_bit bits (i / 8) (i % 8) (by omega)
  rw [show 8 * (i / 8) + i % 8 = i by omega] at hb
  rw [← hb, Nat.testBit_eq_decide_div_mod_eq, Nat.shiftRight_eq_div_pow]
  rcases Nat.mod_two_eq_zero_or_one (statusByte bits (i / 8) / 2 ^ (i % 8)) with h0 | h0 <;> simp [h0]

/-! ### single writes, then a read -/
theorem c19_write_reg_then_read (fr : Framing) (tx : Nat) (htx : tx < 65536) (id : UInt8) (rs : Regs)
    (a v : Nat) (ha : a < 65536) (hv : v < 65536) (ok : Nat → Bool)
    (hex : validatorOf rs a = some ok) (hok : ok v = true) :
    let w := clientWriteSingle fr tx id rs 6 a v
    w.1 = .ok () ∧ w.2 = setReg rs a v ∧ readReg w.2 a = some v ∧
      ∀ b, b < 65536 → b ≠ a → readReg w.2 b = readReg rs b := by
  have hp : processRequest rs 6 (reqRead a v) = (.normal 6 (reqRead a v), setReg rs a v) := by
    unfold processRequest
    rw [reqRead_eq]
    have hmin : minRequestLen 6 = 5 := rfl
    rw [hmin, if_neg (by simp)]
    simp only [show ¬ ((6:Nat) = 1 ∨ (6:Nat) = 2) by decide, show ¬ ((6:Nat) = 3 ∨ (6:Nat) = 4) by decide,
      show ¬ ((6:Nat) = 5) by decide, show ¬ ((6:Nat) = 15) by decide, if_false, if_true]
    unfold reqWriteReg
    simp only [word_put a ha, word_put v hv, writeReg_eq rs a v ha, hex, hok, if_true]
  have hex' : readReg rs a ≠ none := by
    intro h; have := (readReg_none_iff rs a ha).mp h; rw [hex] at this; cases this
  have hx : exchange fr 260 tx id rs 6 (reqRead a v) = (.ok (6, reqRead a v), setReg rs a v) := by
    rw [reqRead_eq] at hp ⊢
    exact exchange_normal fr tx htx id rs _ 6 (by omega) _ _ (by simp) 6 (by omega) _ _ (by simp) hp
  simp only [clientWriteSingle, maxADULen, hx, ne_eq, not_true_eq_false, if_false]
  refine ⟨trivial, trivial, ?_, ?_⟩
  · rw [setReg_read rs a v a ha ha hex']; simp
  · intro b hb hne
    rw [setReg_read rs a v b ha hb hex']; simp [hne]

/-! ### framing (re-exported from Lemmas/ModbusFraming.lean so that they are audited here) -/
theorem c19_rtu_roundtrip (id : UInt8) (fc : Nat) (hfc : fc < 256) (data : Bytes) :
    rtuDecode (rtuEncode id fc data) = .ok (id, fc, data) := rtu_roundtrip id fc hfc data

theorem c19_rtu_rejects (p : Bytes) (id fcb : UInt8) (data : Bytes) (hi lo : UInt8) :
    (p.length < 4 → rtuDecode p = .err "short") ∧
    (rtuCrc (id :: fcb :: data) ≠ hi.toNat * 256 + lo.toNat → rtuDecode (id :: fcb :: data ++ [hi, lo]) = .err "crc") :=
  ⟨rtu_rejects_short p, rtu_rejects_bad_crc id fcb data hi lo⟩

theorem c19_tcp_roundtrip (tx : Nat) (htx : tx < 65536) (id : UInt8) (fc : Nat) (hfc : fc < 256) (d0 : UInt8) (rest : Bytes) :
    tcpDecodeClient tx (tcpEncode tx id fc (d0 :: rest)) = .ok (id, fc, d0 :: rest) := tcp_roundtrip tx htx id fc hfc d0 rest

theorem c19_tcp_rejects (tx tx' : Nat) (htx' : tx' < 65536) (hne : tx' ≠ tx) (id : UInt8) (fc : Nat) (d0 : UInt8)
    (rest p : Bytes) :
    (p.length < 9 → tcpDecodeClient tx p = .err "short") ∧
    tcpDecodeClient tx (tcpEncode tx' id fc (d0 :: rest)) = .err "txid" :=
  ⟨tcp_rejects_short tx p, tcp_rejects_txid tx tx' htx' hne id fc d0 rest⟩

/-! ### conversions are exact inverses (modbus/data.go) -/
theorem c19_uint32_roundtrip (v : Nat) (h : v < 2 ^ 32) :
    regsToUint32 (uint32ToRegs v) = [v] ∧ regsToUint32Swap (uint32ToRegsSwap v) = [v] := by
  simp only [uint32ToRegs, uint32ToRegsSwap, regsToUint32, regsToUint32Swap]
  constructor <;> (congr 1; omega)

theorem c19_regs_uint32_roundtrip (hi lo : Nat) (h1 : hi < 65536) (h2 : lo < 65536) :
    (regsToUint32 [hi, lo]).flatMap uint32ToRegs = [hi, lo] ∧
    (regsToUint32Swap [lo, hi]).flatMap uint32ToRegsSwap = [lo, hi] := by
  simp only [uint32ToRegs, uint32ToRegsSwap, regsToUint32, regsToUint32Swap, List.flatMap_cons, List.flatMap_nil,
    List.append_nil]
  have e1 : (hi * 65536 + lo) / 65536 % 65536 = hi := by omega
  have e2 : (hi * 65536 + lo) % 65536 = lo := by omega
  rw [e1, e2]; exact ⟨rfl, rfl⟩

/-- two's complement reinterpretation (`int32(uint32)`, `int16(uint16)`) and back is the identity -/
theorem c19_signed_roundtrip (bits : Nat) (hb : bits = 16 ∨ bits = 32) (n : Nat) (h : n < 2 ^ bits) :
    ofSigned bits (toSigned bits n) = n := by
  rcases hb with rfl | rfl <;>
    · unfold ofSigned toSigned
      simp only [Nat.reducePow, Nat.reduceSub] at h ⊢
      split <;> omega

theorem c19_signed_roundtrip_inv (bits : Nat) (hb : bits = 16 ∨ bits = 32) (i : Int)
    (h1 : -(2 ^ (bits - 1) : Int) ≤ i) (h2 : i < 2 ^ (bits - 1)) :
    toSigned bits (ofSigned bits i) = i := by
  rcases hb with rfl | rfl <;>
    · unfold ofSigned toSigned
      simp only [Nat.reducePow, Nat.reduceSub] at h1 h2 ⊢
      split <;> omega

/-- non-vacuity: a register file with a gap and a validator; a read of two mapped registers meets the premises of
    `c19_read_regs_agrees`, a write to the validated register those of `c19_write_reg_then_read` -/
example :
    let rs : Regs := [⟨10, 7, fun _ => true⟩, ⟨11, 65535, fun v => v % 2 == 0⟩, ⟨13, 1, fun _ => true⟩]
    Regs16 rs ∧ allSome ((List.range 2).map (fun i => readReg rs (10 + i))) = some [7, 65535] ∧
      (∃ ok, validatorOf rs 11 = some ok ∧ ok 4 = true ∧ ok 5 = false) ∧ readReg rs 12 = none := by
  intro rs
  refine ⟨?_, by decide, ⟨_, rfl, by decide, by decide⟩, by decide⟩
  intro r hr
  simp only [rs, List.mem_cons, List.not_mem_nil, or_false] at hr
  rcases hr with rfl | rfl | rfl <;> decide

end Siot.Modbus
