import Siot.Lemmas.StoreNewEdge
import Siot.Gen.Store
/-
C03 — Stored hashes always equal the Merkle hash of current content.
Model: Siot/Model/Store.lean (nodePoints, edgePoints, updateHash as `bump`), Siot/Model/Crc32.lean.
Lemmas: Hash.lean (key lemma), StoreBridge / StoreInv / StoreSteps / StoreReach / StoreEdge / StoreNewEdge.
-/
namespace Siot.Store
open Siot

/-- Tie A: the CRC field order of Point.CRC, the structure of CalcHash, and the literals of the hash
update as they are in the sources now. -/
theorem gen_store_pinned :
    Gen.pointCrcWrites = ["d", "p.Type", "p.Key", "p.Text", "d"] ∧
    Gen.pointCrcPuts = ["p.Time.UnixNano", "math.Float64bits(p.Value)"] ∧
    Gen.calcHashRanges = ["n.Points", "n.EdgePoints", "children"] ∧
    Gen.updateHashHelperQuery = "SELECT * FROM edges WHERE down=?" := by
  decide

theorem edgeWrite_inv (st : St) (u d : Bytes) (batch : List Point) (hinv : Inv st)
    (hk0 : (u, d) ∈ keysOf st.edges) : Inv (edgeWrite st u d batch) :=
  edgePoints_existing_inv st _ u d batch hinv hk0 rfl

theorem edgeInsert_inv (st : St) (u d typ : Bytes) (batch : List Point) (hinv : Inv st)
    (hk0 : (u, d) ∉ keysOf st.edges) (hne : d ≠ u)
    (hchk : (ancestors (2 ^ st.edges.length) st.edges u).contains d = false) : Inv (edgeInsert st u d typ batch) :=
  edgePoints_new_inv st _ u d typ batch _ hinv hk0 hne hchk (mergeBatch [] batch).1 (mergeBatch [] batch).2 rfl _ rfl _ rfl rfl

theorem edgePointsCore_inv (st st' : St) (node u : Bytes) (pts : List Point) (hinv : Inv st)
    (h : edgePointsCore st node u pts = .ok st') : Inv st' := by
  unfold edgePointsCore at h
  simp only [] at h
  split at h
  · rename_i e hfind
    injection h with h
    rw [← h]
    exact edgeWrite_inv st u node _ hinv (find_edge_key st.edges u node e hfind)
  · rename_i hfind
    split at h
    · cases h
    · split at h
      · cases h
      · rename_i hchk
        injection h with h
        rw [← h]
        have hk0 : (u, node) ∉ keysOf st.edges := by
          intro hmem
          simp only [keysOf, List.mem_map] at hmem
          obtain ⟨e, he, hek⟩ := hmem
          rw [List.find?_eq_none] at hfind
          apply hfind e he
          simp only [keyOf, Prod.mk.injEq] at hek
          simp [hek.1, hek.2]
        have hchk' : (ancestors (2 ^ st.edges.length) st.edges u).contains node = false := by simpa using hchk
        have hne' : node ≠ u := by
          intro hc
          have : (ancestors (2 ^ st.edges.length) st.edges u).contains node = true := by
            rw [hc]
            cases hp : 2 ^ st.edges.length with
            | zero => simp [ancestors]
            | succ n => simp [ancestors]
          rw [hchk'] at this; cases this
        exact edgeInsert_inv st u node _ _ hinv hk0 hne' hchk'

theorem edgePoints_inv (st st' : St) (node parent : Bytes) (pts : List Point) (hinv : Inv st)
    (h : edgePoints st node parent pts = .ok st') : Inv st' := by
  unfold edgePoints at h
  split at h
  · cases h
  · split at h
    · cases h
    · split at h
      · cases h
      · exact edgePointsCore_inv st st' node _ pts hinv h

/-- **C03 step.** Every accepted write — node points, edge points on an existing edge, a new edge
over an empty or populated subtree, mirrors, tombstones, stale and repeated writes — and every
refused one keeps: unique edges, acyclicity, one row per point identity, and every stored hash equal
to the XOR of the checksums of the node's points, the edge's points and the child edges' hashes. -/
theorem c03_step_preserves (st : St) (op : WOp) (hinv : Inv st) : Inv (step st op).1 := by
  cases op with
  | np id pts =>
    simp only [step]
    cases h : nodePoints st id pts with
    | ok st' => exact nodePoints_inv st st' id pts hinv h
    | err e => exact hinv
    | panic m => exact hinv
  | ep node parent pts =>
    simp only [step]
    cases h : edgePoints st node parent pts with
    | ok st' => exact edgePoints_inv st st' node parent pts hinv h
    | err e => exact hinv
    | panic m => exact hinv

/-- **C03 (main): every reachable state.** From the empty store, after ANY sequence of write requests,
every edge's stored hash is the Merkle hash of the current content. -/
theorem c03_reachable (ops : List WOp) : Inv (run {} ops) := by
  have h0 : Inv ({} : St) :=
    ⟨by simp [keysOf], ⟨fun _ => 0, by simp [keysOf], by simp⟩, by simp, by simp [ptsOf, IdUnique], by simp [eptsOf, IdUnique],
     by intro k hk; simp [keysOf] at hk⟩
  suffices ∀ (ops : List WOp) (st : St), Inv st → Inv (run st ops) from this ops {} h0
  intro ops
  induction ops with
  | nil => intro st h; exact h
  | cons op ops ih => intro st h; exact ih _ (c03_step_preserves st op h)

/-- the executable verification (`verifyNodeHashes`, and the driver's oracle) finds nothing to repair
    exactly when the invariant holds -/
theorem c03_verify_clean (st : St) (hinv : Inv st) : hashInv st = true := by
  unfold hashInv
  rw [List.all_eq_true]
  intro e he
  have hk : keyOf e ∈ keysOf st.edges := List.mem_map_of_mem (f := keyOf) he
  have hd := hinv.hash (keyOf e) hk
  unfold defect at hd
  rw [xor_eq_zero_iff] at hd
  rw [hOf_mem st.edges hinv.nodup e he] at hd
  simp only [beq_iff_eq]
  rw [hd]
  unfold calcHash calcF
  simp only [gOf, keyOf, xorAll_eq_xs, kidsK]
  congr 2
  simp only [keysOf, List.filter_map, List.map_map]
  apply List.map_congr_left
  intro c hc
  simp only [Function.comp]
  exact hOf_mem st.edges hinv.nodup c (List.mem_filter.mp hc).1

/-- a point's checksum depends on exactly its time, type, key, text and value -/
theorem c03_crc_depends_exactly (p q : Point)
    (h : p.time = q.time ∧ p.type = q.type ∧ p.key = q.key ∧ p.text = q.text ∧ p.value = q.value) :
    pcrc p = pcrc q := by
  obtain ⟨h1, h2, h3, h4, h5⟩ := h
  unfold pcrc
  rw [h1, h2, h3, h4, h5]

/-- non-vacuity: a reachable store with a chain R → a → b, points on both nodes, a refused write in between, whose
    stored hashes are non-zero and verify -/
example :
    let ops : List WOp := [
      .ep [97] [] [{ type := tombstoneT, time := 3 }, { type := nodeTypeT, text := [100], time := 3 }],
      .ep [98] [97] [{ type := tombstoneT, time := 4 }, { type := nodeTypeT, text := [100], time := 4 }],
      .np [98] [{ type := [1], time := 5, value := 4607182418800017408 }],
      .ep [97] [98] [{ type := tombstoneT, time := 6 }, { type := nodeTypeT, text := [100], time := 6 }],   -- a cycle: refused
      .np [97] [{ type := [1], key := [49], time := 7, value := 4611686018427387904 }]]
    (run {} ops).edges.length = 2 ∧ (run {} ops).nodePts.length = 2 ∧
      (run {} ops).edges.all (fun e => e.hash != 0) = true ∧ hashInv (run {} ops) = true := by
  decide +kernel

end Siot.Store
