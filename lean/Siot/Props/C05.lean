import Siot.Props.C03
import Siot.Gen.Facts
/-
C05 — The graph stays a rooted DAG and refused writes leave no trace.
Model: Siot/Model/Store.lean (edgePoints pre-checks, ancestor check, `step`).
-/
namespace Siot.Store
open Siot

/-- Tie A (structural facts re-extracted from the Go source on every run): every error path of
nodePoints / edgePoints after Begin rolls back (or is the Begin/Commit error itself); the write lock is
taken before Begin; both bus handlers return right after replying with an error; and the literals of
the NaN / key normalisation and of the ancestor walk. -/
theorem gen_facts_pinned :
    Gen.nodePointsReturns.2.2 = 0 ∧ Gen.edgePointsReturns.2.2 = 0 ∧
    Gen.nodePointsLockBeforeBegin = true ∧ Gen.edgePointsLockBeforeBegin = true ∧
    Gen.handleNodePointsStops = true ∧ Gen.handleEdgePointsStops = true ∧
    Gen.normalizePointsCmps = ["==\"\"", "==0"] ∧ Gen.isAncestorCmps = ["==of", "!=nil", "!=nil"] := by
  decide

/-- **C05 refusals.** A self edge, a tombstone on the instance root, a value that is not a number
(in node points or edge points), and a new edge without node type are answered with an error. -/
theorem c05_refuses_self (st : St) (n : Bytes) (pts : List Point) : edgePoints st n n pts = .err "self" := by
  simp [edgePoints]

theorem c05_refuses_root_delete (st : St) (parent : Bytes) (pts : List Point) (hp : st.root ≠ parent)
    (h : pts.any (fun p => p.type == tombstoneT && isPos p.value) = true) :
    edgePoints st st.root parent pts = .err "root" := by
  unfold edgePoints
  rw [if_neg hp, if_pos ⟨rfl, h⟩]

theorem c05_refuses_nan_node (st : St) (id : Bytes) (pts : List Point) (h : pts.any (fun p => isNaN p.value) = true) :
    nodePoints st id pts = .err "nan" := by
  unfold nodePoints; rw [if_pos h]

theorem c05_refuses_nan_edge (st : St) (node parent : Bytes) (pts : List Point)
    (h : pts.any (fun p => isNaN p.value) = true) : ∃ e, edgePoints st node parent pts = .err e := by
  unfold edgePoints
  split
  · exact ⟨_, rfl⟩
  · split
    · exact ⟨_, rfl⟩
    · exact ⟨_, rfl⟩

/-- **C05 cycles are refused.** In a reachable (acyclic) state, a new edge whose node is the parent
or any ancestor of the parent — through live or deleted edges — is answered with an error. -/
theorem c05_refuses_cycle (st : St) (hinv : Inv st) (node parent : Bytes) (pts : List Point)
    (hnew : st.edges.find? (fun e => e.up == (if parent.isEmpty then rootS else parent) && e.down == node) = none)
    (hreach : Reach (keysOf st.edges) (if parent.isEmpty then rootS else parent) node) :
    ∃ e, edgePoints st node parent pts = .err e := by
  obtain ⟨r, hr1, hr2⟩ := hinv.ranked
  have hmem := ancestors_complete st.edges r hr1 (2 ^ st.edges.length) _ node (hr2 _) hreach
  unfold edgePoints
  split
  · exact ⟨_, rfl⟩
  · split
    · exact ⟨_, rfl⟩
    · split
      · exact ⟨_, rfl⟩
      · unfold edgePointsCore
        simp only [hnew]
        split
        · exact ⟨_, rfl⟩
        · rw [if_pos (by simpa using hmem)]
          exact ⟨_, rfl⟩

/-- **C05 refused writes leave no trace** in the store: node contents, edges and hashes are exactly
what they were. (That nothing is rebroadcast either is the handler fact `handle*Stops` above.) -/
theorem c05_refused_leaves_no_trace (st : St) (op : WOp) (h : (step st op).2 = false) : (step st op).1 = st := by
  cases op with
  | np id pts =>
    simp only [step] at h ⊢
    cases hn : nodePoints st id pts <;> simp_all
  | ep node parent pts =>
    simp only [step] at h ⊢
    cases hn : edgePoints st node parent pts <;> simp_all

/-- **C05 DAG invariant.** Every reachable state is acyclic (it has a rank function that strictly
increases downward along every edge, deleted edges included), so every upstream walk terminates. -/
theorem c05_dag_invariant (ops : List WOp) : Ranked (run {} ops) := (c03_reachable ops).ranked

/-- on an acyclic state the bounded walks of the model are exhaustive: everything reachable upstream
    is found within the fuel (the model never cuts a walk short) -/
theorem c05_walks_complete (st : St) (hinv : Inv st) (n x : Bytes) :
    x ∈ ancestors (2 ^ st.edges.length) st.edges n ↔ Reach (keysOf st.edges) n x := by
  obtain ⟨r, hr1, hr2⟩ := hinv.ranked
  exact ⟨ancestors_sound st.edges _ n x, ancestors_complete st.edges r hr1 _ n x (hr2 n)⟩

/-- non-vacuity: a → b → c exists; attaching a under c is refused, and the state is unchanged -/
example :
    let nt : Point := { type := nodeTypeT, text := [100] }
    let st := run {} [.ep [97] [] [nt], .ep [98] [97] [nt], .ep [99] [98] [nt]]
    (step st (.ep [97] [99] [nt])).2 = false ∧ (step st (.ep [97] [99] [nt])).1 = st := by
  decide

end Siot.Store
