import Siot.Lemmas.Export
import Siot.Lemmas.ExportStore
import Siot.Lemmas.ExportForest
import Siot.Lemmas.ExportTime
import Siot.Gen.Export
import Siot.Lemmas.StoreRows
import Siot.Props.C03
/-
C15 — Export followed by import reproduces the tree.
Property theorems only; helper lemmas live in Siot/Lemmas/Export.lean.
The YAML text between export and import (github.com/goccy/go-yaml) is not modelled. The store-level composition
(sending the prepared nodes, reading them back) is `c15_import_stored` for trees without mirrors, and is also
decided by the correspondence run for all generated trees.
-/
namespace Siot.Export
open Siot Siot.Store

/-- **C15 (ids are replaced consistently).** For every exported tree (any shape, with mirrors and
cross-references, blank ids included) and any supply of new ids that are pairwise different and not blank,
ReplaceIDs yields a tree that, node by node in the same order and depth,
* keeps type and edge points,
* carries id `σ old` for one map `σ` — the same old id always becomes the same new id, in node ids and in
  the text of node-id points alike (references to nodes outside the tree get a new id of their own),
* and `σ` never sends two different old ids to one new id;
moreover every node's parent field names the node directly above it (the import target for the top
node): the result passes `checkIDs`. -/
theorem c15_replace_consistent (fresh : Nat → Bytes) (hinj : Function.Injective fresh) (hne : ∀ k, fresh k ≠ [])
    (target : Bytes) (ht : target ≠ []) (f : Flat) :
    ∃ σ : Bytes → Option Bytes,
      Forall2 (Renamed σ) f (replaceIDs fresh target f) ∧
      (∀ a b x, σ a = some x → σ b = some x → a = b) ∧
      checkIDs target [] (replaceIDs fresh target f) = true := by
  have h0 : MapInv fresh {} := ⟨by simp, by intro x hx; cases hx⟩
  obtain ⟨i1, _, i3⟩ := replaceAux_spec fresh hinj target f {} [] h0
  refine ⟨lookupId (replaceIDsAux fresh target {} [] f).2.map, i3 _ (Ext.refl _), ?_, ?_⟩
  · intro a b x ha hb
    exact mapInv_injective fresh _ i1 a b x ha hb
  · exact replaceAux_checks fresh hne hinj target ht f {} [] h0

/-- **C15 (identifier preservation).** With preserved ids nothing is renamed: the nodes sent are the
exported ones, the top node re-parented and marked; and they are only sent when every node's parent
field names the node above it and no id is blank. -/
theorem c15_preserve_sends_same (isDel : Nat → Bool) (fresh : Nat → Bytes) (st : St) (target : Bytes) (f : Flat) (now : Int)
    (st' : St) (h : importNodes isDel fresh st target f true now = .ok st') :
    checkIDs target [] (prepTop target f) = true ∧ sendAll st (prepTop target f) now = .ok st' := by
  unfold importNodes at h
  split at h
  · cases h
  · split at h
    · cases h
    · simp only [if_true] at h
      split at h
      · rename_i hc; exact ⟨hc, h⟩
      · cases h

/-- **C15 (the import marker goes on the top description only).** -/
theorem c15_marker_top_only (target : Bytes) (d : Nat) (n : NodeRec) (rest : Flat) :
    prepTop target ((d, n) :: rest) =
      (d, { n with parent := target,
                   pts := n.pts.map (fun p => if p.type = descriptionT then { p with text := p.text ++ importMark } else p) }) :: rest := rfl

/-- **C15 (noise reduction is undone by the store).** Writing key "0" as "" loses nothing: the store
reads "" as "0" again, so the stored point is the same. -/
theorem c15_blank_key_restored (p : Point) : normPoint (blankKey p) = normPoint p := by
  unfold blankKey
  split
  · rename_i h
    simp [normPoint, normKey, h, zeroKey]
  · rfl

/-- exported edge points are the stored ones (key "0" blanked) except tombstone points with value 0,
    which say "not deleted" — the same as having none -/
theorem c15_edge_points_kept (eps : List Point) (p : Point) :
    p ∈ exportEdgePts eps ↔ ∃ q ∈ eps, p = blankKey q ∧ ¬ (q.type = tombstoneT ∧ (q.value = 0 ∨ q.value = negZero)) := by
  unfold exportEdgePts
  simp only [List.mem_filter, List.mem_map, Bool.not_eq_true', Bool.and_eq_false_iff, beq_eq_false_iff_ne,
    Bool.or_eq_false_iff]
  constructor
  · rintro ⟨⟨q, hq, rfl⟩, hcond⟩
    refine ⟨q, hq, rfl, ?_⟩
    have ht : (blankKey q).type = q.type := by unfold blankKey; split <;> rfl
    have hv : (blankKey q).value = q.value := by unfold blankKey; split <;> rfl
    rw [ht, hv] at hcond
    rintro ⟨h1, h2⟩
    rcases hcond with h | ⟨h3, h4⟩
    · exact h h1
    · rcases h2 with h2 | h2
      · exact h3 h2
      · exact h4 h2
  · rintro ⟨q, hq, rfl, hn⟩
    refine ⟨⟨q, hq, rfl⟩, ?_⟩
    have ht : (blankKey q).type = q.type := by unfold blankKey; split <;> rfl
    have hv : (blankKey q).value = q.value := by unfold blankKey; split <;> rfl
    rw [ht, hv]
    by_cases h1 : q.type = tombstoneT
    · right
      constructor
      · intro h2; exact hn ⟨h1, Or.inl h2⟩
      · intro h2; exact hn ⟨h1, Or.inr h2⟩
    · exact Or.inl h1

/-- **C15 (deleted nodes are not exported).** Every exported node is the lower end of a non-deleted
edge, and carries that node's type, points and edge points. -/
theorem c15_exports_live_only (isDel : Nat → Bool) (st : St) : ∀ (fuel d : Nat) (e : Edge) (x : Nat × NodeRec),
    e ∈ Auth.live isDel st → x ∈ exportFrom isDel st fuel d e → ∃ e' ∈ Auth.live isDel st, x.2 = recOf st e' := by
  intro fuel
  induction fuel with
  | zero => intro d e x _ hx; simp [exportFrom] at hx
  | succ fuel ih =>
    intro d e x he hx
    simp only [exportFrom, List.mem_cons, List.mem_flatMap, List.mem_filter] at hx
    rcases hx with rfl | ⟨c, ⟨hc, _⟩, hx⟩
    · exact ⟨e, he, rfl⟩
    · exact ih (d + 1) c x hc hx

theorem pairwise_mem {α : Type} (R : α → α → Prop) : ∀ (l : List α), l.Pairwise R → ∀ a b, a ∈ l → b ∈ l →
    a = b ∨ R a b ∨ R b a := by
  intro l
  induction l with
  | nil => intro _ a _ ha; cases ha
  | cons x l ih =>
    intro h a b ha hb
    rw [List.pairwise_cons] at h
    simp only [List.mem_cons] at ha hb
    rcases ha with rfl | ha <;> rcases hb with rfl | hb
    · exact Or.inl rfl
    · exact Or.inr (Or.inl (h.1 b hb))
    · exact Or.inr (Or.inr (h.1 a ha))
    · exact ih h.2 a b ha hb

/-- **C15 (the store holds the imported tree, and exporting it again gives the file back).** Let `f` be the nodes
ImportNodes sends (after the marker and the id handling), each in the form `exportNodesHelper` writes — points and
edge points are stored rows with key "0" blanked, no mirrors inside the tree — and none of them known to the store.
Then every `SendNode` succeeds, and afterwards: (1) the graph has exactly one new edge per node, in the order of the
file, with the node's parent, id and type, and no old edge changed its ends or type (so every node has the children
the file gives it, in the same order — `c15_children_order`); (2) for every imported node, the record
`exportNodesHelper` reads from the store for its edge is the node of the file: same id, type, parent, points and
edge points (type, key, value, text, tombstone count, time); (3) its deletion mark is the one in the file; (4) all
other nodes and edges of the store keep their points. -/
theorem c15_import_stored (st : St) (f : Flat) (now : Int)
    (hall : ∀ x ∈ f, NodeOk x.2 ∧ Fresh st x.2.id)
    (hpw : f.Pairwise (fun a b => b.2.id ≠ a.2.id ∧ b.2.id ≠ a.2.parent)) :
    ∃ st', sendAll st f now = .ok st' ∧
      st'.edges.map shape = st.edges.map shape ++ f.map shapeOf ∧
      (∀ x ∈ f, ∀ e ∈ st'.edges, e.down = x.2.id → recOf st' e = x.2 ∧ edgeTomb st' e = tombX x.2.epts) ∧
      (∀ y, (∀ x ∈ f, x.2.id ≠ y) → ptsOf st' y = ptsOf st y) ∧
      (∀ u d, (∀ x ∈ f, x.2.id ≠ d) → eptsOf st' u d = eptsOf st u d) := by
  obtain ⟨st', hs, hsh, hrec, hpt, hep, _⟩ := sendAll_fresh f st now hall hpw
  refine ⟨st', hs, hsh, ?_, hpt, hep⟩
  intro x hx e he hd
  -- which edge is it: not an old one (the node was unknown), so the one of a node of the file with this id: x itself
  have hm : shape e ∈ st'.edges.map shape := List.mem_map_of_mem (f := shape) he
  rw [hsh, List.mem_append] at hm
  have hsx : shape e = shapeOf x := by
    rcases hm with hm | hm
    · exfalso
      simp only [List.mem_map] at hm
      obtain ⟨e', he', hse⟩ := hm
      have := ((hall x hx).2.edges e' he').2
      simp only [shape, Prod.mk.injEq] at hse
      exact this (hse.2.1.trans hd)
    · simp only [List.mem_map] at hm
      obtain ⟨z, hz, hze⟩ := hm
      have hzid : z.2.id = x.2.id := by
        simp only [shape, shapeOf, Prod.mk.injEq] at hze
        exact hze.2.1.trans hd
      rcases pairwise_mem _ f hpw z x hz hx with h | h | h
      · rw [← h]; exact hze.symm
      · exact absurd hzid.symm h.1
      · exact absurd hzid h.1
  simp only [shape, shapeOf, Prod.mk.injEq] at hsx
  obtain ⟨h1, h2, h3⟩ := hrec x hx
  refine ⟨?_, ?_⟩
  · unfold recOf
    rw [hsx.1, hsx.2.1, hsx.2.2, h1, h2]
  · rw [edgeTomb_eq, hsx.1, hsx.2.1, h3]

/-- **C15 (same shape).** After the import every node — old or new — has its old children followed by the nodes
of the file that name it as parent, in the order of the file. -/
theorem c15_children_order (st st' : St) (f : Flat) (h : st'.edges.map shape = st.edges.map shape ++ f.map shapeOf) (p : Bytes) :
    (st'.edges.filter (fun e => e.up == p)).map (·.down) =
      (st.edges.filter (fun e => e.up == p)).map (·.down) ++ (f.filter (fun x => x.2.parent == p)).map (·.2.id) := by
  have key : ∀ es : List Edge, (es.filter (fun e => e.up == p)).map (·.down) =
      ((es.map shape).filter (fun s => s.1 == p)).map (fun s => s.2.1) := by
    intro es
    rw [List.filter_map, List.map_map]
    rfl
  have keyf : (f.filter (fun x => x.2.parent == p)).map (·.2.id) =
      ((f.map shapeOf).filter (fun s => s.1 == p)).map (fun s => s.2.1) := by
    rw [List.filter_map, List.map_map]
    rfl
  rw [key st'.edges, key st.edges, keyf, h, List.filter_append, List.map_append]

/-- **C15 (exporting the imported tree again walks the file's own tree).** With what `c15_import_stored` establishes
about the store after the import (one new edge per node in file order; the record and the deletion mark read back for
every imported node are those of the file), for a store that had no edge below any of the new ids and a file whose
nodes are not marked deleted: `exportNodesHelper` started at the edge of ANY imported node returns exactly the
pre-order list that the parent pointers of the file describe from that node down (`rebuild`): the node, then the
entries of the file naming it as parent, in file order, each with its subtree — same shape, same records, nothing
from the rest of the store. (For a file that is the pre-order list of its own tree, `rebuild f _ 0 top = f`, this
is the file itself; the driver checks that fixed point on every exported file, see the example below.) -/
theorem c15_reexport (isDel : Nat → Bool) (st st' : St) (f : Flat)
    (hsh : st'.edges.map shape = st.edges.map shape ++ f.map shapeOf)
    (hrec : ∀ x ∈ f, ∀ e ∈ st'.edges, e.down = x.2.id → recOf st' e = x.2 ∧ edgeTomb st' e = tombX x.2.epts)
    (hfresh : ∀ x ∈ f, ∀ e ∈ st.edges, e.up ≠ x.2.id)
    (hlive : ∀ x ∈ f, isDel (tombX x.2.epts) = false) :
    ∀ (fuel d : Nat), ∀ x ∈ f, ∀ e ∈ st'.edges, e.down = x.2.id →
      exportFrom isDel st' fuel d e = rebuild f fuel d x.2 := by
  intro fuel
  induction fuel with
  | zero => intro d x _ e _ _; rfl
  | succ fuel ih =>
    intro d x hx e he hd
    simp only [exportFrom, rebuild, (hrec x hx e he hd).1]
    congr 1
    -- the live children of the node in the store, in order, are the entries of the file that name it as parent
    have hkids : (st'.edges.filter (fun c => c.up == e.down)).map shape =
        (f.filter (fun y => y.2.parent == x.2.id)).map shapeOf := by
      rw [filter_up_shape, hsh, List.filter_append, hd, filter_parent_shape]
      have : (st.edges.map shape).filter (fun s => s.1 == x.2.id) = [] := by
        rw [List.filter_eq_nil_iff]
        intro s hs
        simp only [List.mem_map] at hs
        obtain ⟨e0, he0, rfl⟩ := hs
        simpa [shape] using hfresh x hx e0 he0
      rw [this, List.nil_append]
    -- every edge below an imported node belongs to an imported node, hence is live
    have hnew : ∀ c ∈ st'.edges, c.up = e.down → ∃ y ∈ f, shape c = shapeOf y := by
      intro c hc hcu
      have hm : shape c ∈ st'.edges.map shape := List.mem_map_of_mem (f := shape) hc
      rw [hsh, List.mem_append] at hm
      rcases hm with hm | hm
      · exfalso
        simp only [List.mem_map] at hm
        obtain ⟨e0, he0, hs⟩ := hm
        simp only [shape, Prod.mk.injEq] at hs
        exact hfresh x hx e0 he0 (hs.1.trans (hcu.trans hd))
      · simp only [List.mem_map] at hm
        obtain ⟨y, hy, hs⟩ := hm
        exact ⟨y, hy, hs.symm⟩
    have hlv : (Auth.live isDel st').filter (fun c => c.up == e.down) = st'.edges.filter (fun c => c.up == e.down) := by
      unfold Auth.live
      rw [List.filter_filter]
      apply List.filter_congr
      intro c hc
      by_cases hcu : c.up = e.down
      · obtain ⟨y, hy, hs⟩ := hnew c hc hcu
        simp only [shape, shapeOf, Prod.mk.injEq] at hs
        have := (hrec y hy c hc hs.2.1).2
        simp [hcu, this, hlive y hy]
      · simp [hcu]
    rw [hlv]
    apply flatMap_congr_map shape shapeOf _ _ _ _ hkids
    intro c hc y hy hs
    simp only [List.mem_filter] at hc hy
    simp only [shape, shapeOf, Prod.mk.injEq] at hs
    exact ih (d + 1) y hy.1 c hc.1 hs.2.1

/-- **C15 (the file carries no time stamps).** The YAML file holds points without times; the store stamps them when
they arrive. Importing such a file `f` (every time 0) at clock `now` — node after node, one clock reading per node —
is, step for step and in its result, importing the same file with every point of node number *i* stamped `now + i`
(`stampFlat`). That stamped file is the form `c15_import_stored` speaks about (stored rows, times not zero), so
everything it says holds for the time-less file with the times of the import. -/
theorem c15_import_timeless_file (f : Flat) (st : St) (now : Int) (hpos : 0 < now) :
    sendAll st (zeroFlat f) now = sendAll st (stampFlat now f) now :=
  sendAll_timeless f st now hpos

/-- **C15 (an exported file is the traversal of its own tree).** On every store whose non-deleted edges form a
forest — no node below two non-deleted edges (no mirrors) and no cycle — the file `exportNodesHelper` writes from any
non-deleted edge, at any depth budget, is exactly the pre-order list its own parent pointers describe: walking the file
from its first node by `parent` fields (`rebuild`) gives the file back. (This is the fixed point `c15_reexport` refers
to; the driver still evaluates it on every exported file, mirrors included.) -/
theorem c15_export_is_own_tree (isDel : Nat → Bool) (st : St) (hf : Forest (Auth.live isDel st)) (k d : Nat) (e : Edge)
    (he : e ∈ Auth.live isDel st) :
    rebuild (exportFrom isDel st k d e) k d (recOf st e) = exportFrom isDel st k d e :=
  export_self_rebuilding isDel st hf k d e he

/-- **C15 (export, import with the ids kept, export again: the same file).** Let `f` be the file exported from a
non-deleted edge of a forest store `st0`, with the top node re-parented to the import target and its description marked
as `ImportNodes` does (`prepTop`; the target is not a node of the file). If the import leaves the store as
`c15_import_stored` describes (hypotheses of `c15_reexport`), then exporting the imported top node again returns `f`
itself — every node, in the same order and depth, with the same points and edge points. -/
theorem c15_export_import_export (isDel : Nat → Bool) (st0 st st' : St) (K : Nat) (e0 : Edge) (target : Bytes)
    (hf : Forest (Auth.live isDel st0)) (he0 : e0 ∈ Auth.live isDel st0)
    (htgt : target ∉ ids (exportFrom isDel st0 (K + 1) 0 e0))
    (f : Flat) (hfd : f = prepTop target (exportFrom isDel st0 (K + 1) 0 e0))
    (hsh : st'.edges.map shape = st.edges.map shape ++ f.map shapeOf)
    (hrec : ∀ x ∈ f, ∀ e ∈ st'.edges, e.down = x.2.id → recOf st' e = x.2 ∧ edgeTomb st' e = tombX x.2.epts)
    (hfresh : ∀ x ∈ f, ∀ e ∈ st.edges, e.up ≠ x.2.id)
    (hlive : ∀ x ∈ f, isDel (tombX x.2.epts) = false) :
    ∀ e ∈ st'.edges, e.down = e0.down → exportFrom isDel st' (K + 1) 0 e = f := by
  intro e he hd
  have hS : exportFrom isDel st0 (K + 1) 0 e0 = (0, recOf st0 e0) ::
      ((Auth.live isDel st0).filter (fun c => c.up == e0.down)).flatMap (fun c => exportFrom isDel st0 K 1 c) := rfl
  generalize hrest : ((Auth.live isDel st0).filter (fun c => c.up == e0.down)).flatMap (fun c => exportFrom isDel st0 K 1 c) = rest at hS
  have hown := export_self_rebuilding isDel st0 hf (K + 1) 0 e0 he0
  have hup := export_up_outside isDel st0 hf (K + 1) 0 e0 he0
  rw [hS] at hown hup htgt hfd
  obtain ⟨n', hpt, hid, hpar⟩ : ∃ n', prepTop target ((0, recOf st0 e0) :: rest) = (0, n') :: rest ∧ n'.id = (recOf st0 e0).id ∧ n'.parent = target :=
    ⟨_, rfl, rfl, rfl⟩
  rw [hpt] at hfd
  have hx : (0, n') ∈ f := by rw [hfd]; exact List.mem_cons_self ..
  have h1 := c15_reexport isDel st st' f hsh hrec hfresh hlive (K + 1) 0 (0, n') hx e he (by rw [hd, hid]; rfl)
  rw [h1, hfd]
  exact rebuild_retop 0 (recOf st0 e0) n' rest hid hup (by rw [hpar]; exact htgt) (K + 1) hown

/-- non-vacuity of the forest hypothesis: a root with two children, one of them with a child of its own -/
example :
    let L : List Edge := [⟨rootS, [82], [100], 0⟩, ⟨[82], [97], [100], 0⟩, ⟨[82], [98], [100], 0⟩, ⟨[97], [99], [100], 0⟩]
    Forest L := by
  intro L
  refine ⟨⟨fun b => if b = rootS then 0 else if b = [82] then 1 else if b = [99] then 3 else 2, ?_⟩, by decide⟩
  intro c hc
  simp only [L, List.mem_cons, List.not_mem_nil, or_false] at hc
  rcases hc with rfl | rfl | rfl | rfl <;> decide

/-- non-vacuity: a file with two levels and siblings is its own traversal -/
example :
    let n := fun (id par : Bytes) => ({ id := id, typ := [100], parent := par, pts := [], epts := [] } : NodeRec)
    SelfRebuilding [(0, n [97] [82]), (1, n [98] [97]), (2, n [100] [98]), (1, n [99] [97])] = true := by decide

/-- non-vacuity of `c15_import_stored`: a two-node file (a point with key "0" written as "", a child) and a store
    with a root node that does not know the two ids -/
example :
    let st : St := { edges := [⟨rootS, [97], [100], 0⟩], root := [97] }
    let n1 : NodeRec := { id := [98], typ := [100], parent := [97], pts := [{ type := [116], key := [], time := 5, text := [120] }], epts := [] }
    let n2 : NodeRec := { id := [99], typ := [100], parent := [98], pts := [], epts := [] }
    let f : Flat := [(0, n1), (1, n2)]
    (∀ x ∈ f, NodeOk x.2 ∧ Fresh st x.2.id) ∧ f.Pairwise (fun a b => b.2.id ≠ a.2.id ∧ b.2.id ≠ a.2.parent) := by
  intro st n1 n2 f
  have e1 : Exported n1 [{ type := [116], key := zeroKey, time := 5, text := [120] }] [] :=
    ⟨by decide, by decide, (by intro p hp; simp only [List.mem_singleton] at hp; subst hp; exact ⟨by decide, by decide, by decide, by decide⟩),
      List.pairwise_singleton _ _, (by intro p hp; cases hp), List.Pairwise.nil⟩
  have e2 : Exported n2 [] [] :=
    ⟨by decide, by decide, (by intro p hp; cases hp), List.Pairwise.nil, (by intro p hp; cases hp), List.Pairwise.nil⟩
  have fr : ∀ x : Bytes, x ≠ [97] → x ≠ rootS → Fresh st x := by
    intro x h1 h2
    refine ⟨?_, rfl, fun _ => rfl, h1⟩
    intro e he
    simp only [st, List.mem_singleton] at he
    subst he
    exact ⟨fun h => h2 h.symm, fun h => h1 h.symm⟩
  refine ⟨?_, ?_⟩
  · intro x hx
    simp only [f, List.mem_cons, List.not_mem_nil, or_false] at hx
    rcases hx with rfl | rfl
    · exact ⟨⟨⟨_, _, e1⟩, by decide, by decide, by decide⟩, fr _ (by decide) (by decide)⟩
    · exact ⟨⟨⟨_, _, e2⟩, by decide, by decide, by decide⟩, fr _ (by decide) (by decide)⟩
  · simp only [f, List.pairwise_cons, List.mem_singleton, forall_eq, List.not_mem_nil, false_imp_iff, implies_true,
      List.Pairwise.nil, and_true]
    decide

/-- non-vacuity: a tree with a mirror and a cross-reference gets consistent new ids -/
example :
    let fresh : Nat → Bytes := fun k => [35, UInt8.ofNat (48 + k)]
    let n := fun (id par : Bytes) (pts : List Point) => ({ id := id, typ := [100], parent := par, pts := pts, epts := [] } : NodeRec)
    (replaceIDs fresh [72] [(0, n [97] [71] []), (1, n [98] [97] [{ type := nodeIDT, text := [99] }]), (1, n [99] [97] []), (2, n [98] [99] [])]).map
      (fun x => (x.2.id, x.2.parent, x.2.pts.map (·.text))) =
    [([35, 48], [72], []), ([35, 49], [35, 48], [[35, 50]]), ([35, 50], [35, 48], []), ([35, 49], [35, 50], [])] := by decide

/-- tie A: ExportNodes / exportNodesHelper / ImportNodes / checkIDs / ReplaceIDs / SendNode have the shape
the model transcribes; floats go through the repaired marshaler. -/
theorem gen_export_pinned :
    Gen.exportHelperIfs = ["p.Key == \"0\"", "p.Key == \"0\"", "p.Type == data.PointTypeTombstone && p.Value == 0", "err != nil", "err != nil"] ∧
    Gen.exportHelperGetNodes = ["nc, node.ID, \"all\", \"\", false"] ∧
    Gen.exportGetNodes = ["nc, \"all\", id, \"\", false"] ∧
    Gen.exportMarshal = ["ne, yaml.CustomMarshaler[float64](yamlFloat)"] ∧
    Gen.importIfs = ["parent == \"root\" || parent == \"\"", "err != nil", "err != nil", "len(n) < 1", "err != nil", "err != nil", "err != nil",
      "len(imp.Nodes) < 1", "p.Type == data.PointTypeDescription", "preserveIDs", "err != nil",
      "parent == \"root\" && rootNode.ID != imp.Nodes[0].ID", "err != nil"] ∧
    Gen.importCalls = ["imp.Nodes[0], parent", "&imp.Nodes[0], parent", "nc, node.NodeEdge, origin"] ∧
    Gen.importMarker = ["imp.Nodes[0].Points[i].Text += \" (import)\""] ∧
    Gen.checkIDsIfs = ["parent == \"\"", "node.Parent != parent", "node.ID == \"\"", "err != nil"] ∧
    Gen.checkIDsRec = ["c, node.ID"] ∧
    Gen.replaceIfs = ["n.ID == \"\"", "!ok", "p.Type == data.PointTypeNodeID", "p.Text == \"\"", "!ok"] ∧
    Gen.replaceRec = ["&n.Children[i], n.ID", "nodes, parent"] ∧
    Gen.replaceRanges = ["n.Points", "n.Children"] ∧
    Gen.sendNodeIfs = ["origin != \"\"", "node.Points[i].Origin == \"\"", "node.EdgePoints[i].Origin == \"\"", "node.ID == \"\"",
      "node.Parent == \"\" || node.Parent == \"none\"", "err != nil", "p.Type == data.PointTypeTombstone && (p.Key == \"\" || p.Key == \"0\")",
      "!hasTombstone", "err != nil"] ∧
    Gen.sendNodeSends = ["nc, node.ID, points, true", "nc, node.ID, node.Parent, node.EdgePoints, true"] := by
  decide

theorem gen_export_constants_pinned :
    strBytes Gen.sPointTypeDescription = descriptionT ∧ strBytes Gen.sPointTypeNodeID = nodeIDT := by
  decide +kernel

/-- **C15 (the records of an export meet the premises of the import theorems).** `c15_import_stored` and the theorems
built on it ask that every node of the file is `Exported`: its points and edge points are the exported form of stored rows
— no empty key, no -0, no NaN, one row per identity, no node type among the edge rows — with time stamps. For a file written
by `ExportNodes` from ANY store reachable by write requests this is not an assumption: the store normalises what it
writes and refuses NaN (`rowInv_run`), keeps one row per identity (`c03_reachable`), and `exportNodesHelper` builds the
record from exactly those rows (`recOf`). The one genuine premise left is that the rows carry time stamps (a writer
that sends a zero time is stamped by the store's clock in the implementation; the store model takes the time as given). -/
theorem c15_exported_records_meet_the_premises (ops : List WOp) (e : Edge)
    (htime : ∀ id, ∀ p ∈ ptsOf (run {} ops) id, p.time ≠ 0) (hetime : ∀ u d, ∀ p ∈ eptsOf (run {} ops) u d, p.time ≠ 0) :
    Exported (recOf (run {} ops) e) (ptsOf (run {} ops) e.down) (eptsOf (run {} ops) e.up e.down) := by
  have hr := rowInv_run ops {} rowInv_empty
  have hi := c03_reachable ops
  have rowOk : ∀ p : Point, RowGood p → p.time ≠ 0 → RowOk p := by
    intro p hg ht
    refine ⟨?_, ?_, hg.2, ht⟩
    · intro hk
      have : (normPoint p).key = p.key := by rw [hg.1]
      unfold normPoint normKey at this
      simp only [hk, List.isEmpty_nil, if_true] at this
      exact absurd this (by decide)
    · intro hv
      have : (normPoint p).value = p.value := by rw [hg.1]
      unfold normPoint at this
      simp only [hv, if_true] at this
      exact absurd this (by decide)
  exact ⟨rfl, rfl, fun p hp => rowOk p (hr.1 _ (ptsOf_mem _ _ p hp)) (htime _ p hp), hi.npu _,
    fun p hp => ⟨rowOk p (hr.2 _ (eptsOf_mem _ _ _ p hp)).1 (hetime _ _ p hp), (hr.2 _ (eptsOf_mem _ _ _ p hp)).2⟩, hi.epu (e.up, e.down)⟩

end Siot.Export
