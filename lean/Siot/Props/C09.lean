import Siot.Lemmas.Auth
import Siot.Props.C05
import Siot.Gen.Auth
/-
C09 — No node access without valid credentials; valid users can log in.
Property theorems only; helper lemmas live in Siot/Lemmas/Auth.lean.
`tokenOK` stands for the JWT check of github.com/golang-jwt/jwt (HS256 signature with the instance key,
not expired) — library code, exercised by the harness with forged, expired and tampered tokens.
-/
namespace Siot.Auth
open Siot Siot.Store

/-- **C09 (gate).** A request passes the gate in front of the node routes exactly when its
Authorization header IS the instance's auth token, or splits (on white space) into at least two fields
of which the first is `Bearer` and the second is a token the instance accepts. -/
theorem c09_gate_iff (tok : Bytes) (ok : Bytes → Bool) (hdr : Bytes) :
    gate tok ok hdr = true ↔ hdr = tok ∨ ∃ t rest, fields hdr = bearer :: t :: rest ∧ ok t = true := by
  unfold gate keyValid
  simp only [Bool.or_eq_true, beq_iff_eq]
  constructor
  · rintro (h | h)
    · exact Or.inl h
    · right
      split at h
      · rename_i f0 f1 rest heq
        simp only [Bool.and_eq_true, beq_iff_eq] at h
        exact ⟨f1, rest, by rw [heq, h.1], h.2⟩
      · simp at h
  · rintro (h | ⟨t, rest, hf, hok⟩)
    · exact Or.inl h
    · right; rw [hf]; simp [hok]

/-- anything else is refused: not the token, and no white-space separated piece of the header is an
    acceptable JWT ⇒ 401 (absent, empty, malformed, wrong scheme, forged, expired, tampered) -/
theorem c09_gate_rejects (tok : Bytes) (ok : Bytes → Bool) (hdr : Bytes) (h1 : hdr ≠ tok)
    (h2 : ∀ t ∈ fields hdr, ok t = false) : gate tok ok hdr = false := by
  cases hg : gate tok ok hdr with
  | false => rfl
  | true =>
    rcases (c09_gate_iff tok ok hdr).mp hg with h | ⟨t, rest, hf, hok⟩
    · exact absurd h h1
    · have := h2 t (by rw [hf]; simp)
      rw [this] at hok
      exact absurd hok (by simp)

/-- the scheme word is compulsory and case-sensitive: a bare valid JWT, or one behind another first
    word, does not pass (unless the header equals the auth token) -/
theorem c09_gate_needs_bearer (tok : Bytes) (ok : Bytes → Bool) (hdr : Bytes) (h1 : hdr ≠ tok)
    (h2 : (fields hdr).head? ≠ some bearer) : gate tok ok hdr = false := by
  cases hg : gate tok ok hdr with
  | false => rfl
  | true =>
    rcases (c09_gate_iff tok ok hdr).mp hg with h | ⟨t, rest, hf, _⟩
    · exact absurd h h1
    · rw [hf] at h2; simp at h2

/-- the token that opens the gate is a non-empty, white-space free piece of the header -/
theorem c09_token_is_a_field (tok : Bytes) (ok : Bytes → Bool) (hdr : Bytes) (hg : gate tok ok hdr = true) (h1 : hdr ≠ tok) :
    ∃ t ∈ fields hdr, ok t = true ∧ t ≠ [] ∧ ∀ b ∈ t, isSpace b = false := by
  rcases (c09_gate_iff tok ok hdr).mp hg with h | ⟨t, rest, hf, hok⟩
  · exact absurd h h1
  · have hm : t ∈ fields hdr := by rw [hf]; simp
    exact ⟨t, hm, hok, fields_mem hdr t hm⟩

/-- non-vacuity: the two legitimate ways in do get in -/
theorem c09_gate_accepts (tok : Bytes) (ok : Bytes → Bool) (t : Bytes) (hne : t ≠ []) (ht : ∀ b ∈ t, isSpace b = false)
    (hok : ok t = true) : gate tok ok tok = true ∧ gate tok ok (bearer ++ 32 :: t) = true := by
  refine ⟨by simp [gate], ?_⟩
  rw [c09_gate_iff]
  exact Or.inr ⟨t, [], fields_bearer t hne ht, hok⟩

/-- **C09 (login).** In every reachable store state, `userCheck` returns something — and a token is
issued — exactly when some node of type user carries this e-mail and password and hangs off the root
sentinel through edges that are not deleted. (`isDel` is the tombstone test on the value bits.) -/
theorem c09_login_iff (isDel : Nat → Bool) (st : St) (hinv : Inv st) (email pass : Bytes) :
    userCheck isDel st email pass ≠ [] ↔
      ∃ e ∈ st.edges, e.typ = userT ∧ textOf (ptsOf st e.down) emailT = email ∧ textOf (ptsOf st e.down) passT = pass ∧
        PathToRoot (keysOf (live isDel st)) e.down := by
  obtain ⟨r, hr1, hr2⟩ := hinv.ranked
  have hrl : ∀ k ∈ keysOf (live isDel st), r k.1 < r k.2 := fun k hk => hr1 k (keysOf_filter_sub' _ _ k hk)
  constructor
  · intro hne
    obtain ⟨u, hu⟩ := List.exists_mem_of_ne_nil _ hne
    unfold userCheck at hu
    simp only [List.mem_filter, List.mem_flatMap, List.mem_map, beq_iff_eq] at hu
    obtain ⟨⟨id, ⟨e, ⟨he, htyp⟩, hid⟩, hmem⟩, hpath⟩ := hu
    split at hmem
    · exact absurd hmem List.not_mem_nil
    · split at hmem
      · rename_i hcred
        simp only [Bool.and_eq_true, beq_iff_eq] at hcred
        simp only [List.mem_map, List.mem_filter, beq_iff_eq] at hmem
        obtain ⟨e', ⟨_, hd'⟩, hu'⟩ := hmem
        have hu1 : u.1 = id := by rw [← hu']; exact hd'
        refine ⟨e, he, htyp, ?_, ?_, ?_⟩
        · rw [hid]; exact hcred.1
        · rw [hid]; exact hcred.2
        · rw [hid, ← hu1]; exact checkPath_sound _ _ _ hpath
      · exact absurd hmem List.not_mem_nil
  · rintro ⟨e, he, htyp, hem, hpw, hpath⟩
    -- a live edge above the user exists
    have hlive : ∃ e' ∈ live isDel st, e'.down = e.down := by
      cases hpath with
      | direct _ hk =>
        simp only [keysOf, List.mem_map] at hk
        obtain ⟨e', he', hek⟩ := hk
        exact ⟨e', he', by have := congrArg Prod.snd hek; simpa [keyOf] using this⟩
      | via _ k hk hkn _ =>
        simp only [keysOf, List.mem_map] at hk
        obtain ⟨e', he', hek⟩ := hk
        exact ⟨e', he', by rw [← hkn, ← hek]; rfl⟩
    obtain ⟨e', he', hd'⟩ := hlive
    apply List.ne_nil_of_mem (a := (e'.down, e'.up))
    unfold userCheck
    simp only [List.mem_filter, List.mem_flatMap, List.mem_map, beq_iff_eq]
    refine ⟨⟨e.down, ⟨e, ⟨he, htyp⟩, rfl⟩, ?_⟩, ?_⟩
    · have hne : (List.filter (fun x => x.down == e.down) (live isDel st)).isEmpty = false := by
        cases hf : List.filter (fun x => x.down == e.down) (live isDel st) with
        | nil =>
          have : e' ∈ List.filter (fun x => x.down == e.down) (live isDel st) := by
            simp only [List.mem_filter, beq_iff_eq]; exact ⟨he', hd'⟩
          rw [hf] at this; exact absurd this List.not_mem_nil
        | cons a l => rfl
      simp only [hne, Bool.false_eq_true, if_false, hem, hpw, beq_self_eq_true, Bool.and_self, if_true,
        List.mem_map, List.mem_filter, beq_iff_eq]
      exact ⟨e', ⟨he', hd'⟩, rfl⟩
    · show checkPath (live isDel st) (2 ^ st.edges.length) e'.down = true
      rw [hd']
      exact checkPath_complete _ r hrl _ _ (hr2 _) hpath

/-- a deleted placement does not count: a user whose every upward path crosses a deleted edge cannot log in
    (contrapositive reading of `c09_login_iff`, stated for the record) -/
theorem c09_no_login_without_live_path (isDel : Nat → Bool) (st : St) (hinv : Inv st) (email pass : Bytes)
    (h : ∀ e ∈ st.edges, e.typ = userT → textOf (ptsOf st e.down) emailT = email → textOf (ptsOf st e.down) passT = pass →
      ¬ PathToRoot (keysOf (live isDel st)) e.down) :
    userCheck isDel st email pass = [] := by
  cases hu : userCheck isDel st email pass with
  | nil => rfl
  | cons a l =>
    have hne : userCheck isDel st email pass ≠ [] := by rw [hu]; simp
    obtain ⟨e, he, ht, h1, h2, hp⟩ := (c09_login_iff isDel st hinv email pass).mp hne
    exact absurd hp (h e he ht h1 h2)

/-- **C09 (listing).** Every node instance shown to a user is a place the user is attached to (through
a non-deleted edge) or lies below such a place through non-deleted edges. -/
theorem c09_listing_only_subtrees (isDel : Nat → Bool) (st : St) (uid : Bytes) (x : Bytes × Bytes)
    (hx : x ∈ listing isDel st uid) :
    ∃ un ∈ live isDel st, un.down = uid ∧ (x.1 = un.up ∨ Below (keysOf (live isDel st)) un.up x.1) := by
  unfold listing at hx
  rw [List.mem_eraseDups] at hx
  simp only [List.mem_flatMap, List.mem_filter, beq_iff_eq, List.mem_append, List.mem_map] at hx
  obtain ⟨un, ⟨hun, hd⟩, hx | hx⟩ := hx
  · obtain ⟨e, ⟨_, hed⟩, hxe⟩ := hx
    exact ⟨un, hun, hd, Or.inl (by rw [← hxe]; exact hed)⟩
  · exact ⟨un, hun, hd, Or.inr (getChildren_sound _ _ _ _ hx).1⟩

/-- and every shown instance below a place is a real non-deleted edge (nothing is invented) -/
theorem c09_listing_edges_are_live (isDel : Nat → Bool) (st : St) (uid : Bytes) (x : Bytes × Bytes)
    (hx : x ∈ listing isDel st uid) (hnr : x.2 ≠ rootS) : (x.2, x.1) ∈ keysOf (live isDel st) := by
  unfold listing at hx
  rw [List.mem_eraseDups] at hx
  simp only [List.mem_flatMap, List.mem_filter, beq_iff_eq, List.mem_append, List.mem_map] at hx
  obtain ⟨un, ⟨_, _⟩, hx | hx⟩ := hx
  · obtain ⟨e, _, hxe⟩ := hx
    rw [← hxe] at hnr
    exact absurd rfl hnr
  · exact (getChildren_sound _ _ _ _ hx).2

/-- tie A: the gate, the bearer parsing, the JWT acceptance expression, the token lifetime, the login
walk (after the repair), the listing requests and the bus token wiring have the shape the model transcribes. -/
theorem gen_auth_pinned :
    Gen.serveIfsHead = ["req.Header.Get(\"Authorization\") != h.authToken", "!validUser"] ∧
    Gen.gateBeforeBus = true ∧
    Gen.keyValidIfs = ["len(fields) < 2", "fields[0] != \"Bearer\""] ∧
    Gen.keyValidFields = ["req.Header.Get(\"Authorization\")"] ∧ Gen.keyValidToken = ["fields[1]"] ∧
    Gen.validTokenReturns = ["false, \"\"", "false, \"\"", "false, \"\"",
      "(err == nil && token.Method.Alg() == \"HS256\" && token.Valid), userID"] ∧
    Gen.validTokenParse = ["str, k.keyFunc"] ∧
    Gen.newTokenClaims = ["ExpiresAt: time.Now().Add(168 * time.Hour).Unix()", "Id: userID"] ∧
    Gen.newTokenMethod = ["jwt.SigningMethodHS256, claims"] ∧
    Gen.userCheckIfs = ["err != nil", "err != nil", "err != nil", "err != nil", "len(ne) < 1", "u.Email == email && u.Pass == password",
      "err != nil", "p.Type == data.PointTypeTombstone && p.Value != 0", "deleted", "e.Up == \"root\"", "err != nil", "ok", "err != nil", "ok"] ∧
    Gen.userCheckQueries = ["\"SELECT down FROM edges WHERE type=?\", data.NodeTypeUser", "nil, \"SELECT * FROM edges WHERE down=?\", id"] ∧
    Gen.userCheckGetNodes = ["nil, \"all\", id, \"\", false"] ∧
    Gen.authUserIfs = ["err != nil", "len(msg.Data) <= 0", "err != nil", "!ok", "!ok", "err != nil || len(nodes) <= 0", "err != nil",
      "err != nil", "err != nil"] ∧
    Gen.authUserCheck = ["emailP.Text, passP.Text"] ∧
    Gen.listingGetNodes = ["nc, \"all\", userID, \"\", false", "nc, id, \"all\", \"\", false", "nc, \"all\", un.Parent, \"\", false"] ∧
    Gen.natsAuthOption = ["Authorization: o.Auth"] ∧
    Gen.serverNatsAuth = ["Auth: o.AuthToken", "AuthToken: o.AuthToken", "AuthToken: o.AuthToken"] ∧
    Gen.serverConnectToken = ["o.AuthToken"] := by
  decide

/-- non-vacuity: a reachable store with a user `u1` under the root device and a user `u2` (same credentials scheme) under
    a group whose edge to the root device is deleted: the first can log in, the second cannot -/
example :
    let isDel : Nat → Bool := fun v => v == 4607182418800017408
    let nt : Bytes → Int → Point := fun ty t => { type := nodeTypeT, text := ty, time := t }
    let st := run {} [
      .ep [82] [] [{ type := tombstoneT, time := 1 }, nt [100] 1],
      .ep [103] [82] [{ type := tombstoneT, time := 2, value := 4607182418800017408 }, nt [100] 2],
      .ep [117, 49] [82] [{ type := tombstoneT, time := 3 }, nt userT 3],
      .ep [117, 50] [103] [{ type := tombstoneT, time := 4 }, nt userT 4],
      .np [117, 49] [{ type := emailT, text := [97], time := 5 }, { type := passT, text := [120], time := 5 }],
      .np [117, 50] [{ type := emailT, text := [98], time := 6 }, { type := passT, text := [121], time := 6 }]]
    Inv st ∧ userCheck isDel st [97] [120] ≠ [] ∧ userCheck isDel st [98] [121] = [] ∧ userCheck isDel st [97] [121] = [] := by
  intro isDel nt st
  exact ⟨c03_reachable _, by decide +kernel, by decide +kernel, by decide +kernel⟩

end Siot.Auth
