import Siot.Lemmas.SubjectSafe
import Siot.Gen.Serial
/-
C17 — Serial packets round-trip and corruption is always detected.
Model: Siot/Model/Crc16.lean, Siot/Model/Serial.lean. Lemmas: Siot/Lemmas/Crc16*.lean, Bits.lean, Serial.lean.
-/
namespace Siot.Serial
open Siot Siot.Crc16

/-- **C17 round trip (frame level).** For every sequence number, every subject of at most 16 bytes
without leading/trailing NUL, and every payload, `SerialDecode (SerialEncode …)` returns exactly the
sequence number, the subject and the payload — for checksummed packets and for `log` packets alike. -/
theorem c17_roundtrip (seq : UInt8) (sub payload : Bytes) (hlen : sub.length ≤ 16) (hnul : NulSafe sub) :
    ∃ p, encode seq sub payload = .ok p ∧ decode p = .ok ⟨seq, sub, payload⟩ := by
  have hpl := padSubject_length sub hlen
  have htrim := trimNul_pad sub hnul
  unfold encode
  rw [if_neg (by simp [subjectWidth]; try omega)]
  by_cases hlog : sub = logSubject
  · refine ⟨seq :: (padSubject sub ++ payload), by simp [hlog], ?_⟩
    unfold decode
    have h17 : ¬ (seq :: (padSubject sub ++ payload)).length < 1 + 16 := by simp [hpl]
    simp only [h17, if_false]
    have ht : (padSubject sub ++ payload).take 16 = padSubject sub := by
      rw [List.take_append_of_le_length (by omega), List.take_of_length_le (by omega)]
    rw [ht, htrim, if_pos hlog]
    have hd : (padSubject sub ++ payload).drop 16 = payload := by
      rw [← hpl, List.drop_left]
    rw [hd]
  · refine ⟨seq :: (padSubject sub ++ payload) ++ le16 (crc (seq :: (padSubject sub ++ payload))), by simp [hlog], ?_⟩
    generalize hbody : seq :: (padSubject sub ++ payload) = body
    have hbl : body.length = 17 + payload.length := by rw [← hbody]; simp [hpl]; omega
    have hc := crc_lt body
    unfold decode
    rw [← hbody]
    simp only [List.cons_append]
    rw [hbody]
    have hdl : (seq :: (padSubject sub ++ payload ++ le16 (crc body))).length = 19 + payload.length := by
      simp [hpl, le16]; omega
    have hcons : seq :: (padSubject sub ++ payload ++ le16 (crc body)) = body ++ le16 (crc body) := by
      rw [← hbody]; simp
    have h17 : ¬ (seq :: (padSubject sub ++ payload ++ le16 (crc body))).length < 1 + 16 := by rw [hdl]; omega
    have h19 : ¬ (seq :: (padSubject sub ++ payload ++ le16 (crc body))).length < 1 + 2 + 16 := by rw [hdl]; omega
    simp only [h17, h19, if_false]
    have ht : (padSubject sub ++ payload ++ le16 (crc body)).take 16 = padSubject sub := by
      rw [List.append_assoc, List.take_append_of_le_length (by omega), List.take_of_length_le (by omega)]
    rw [ht, htrim, if_neg hlog, hdl, hcons]
    have htake : (body ++ le16 (crc body)).take (19 + payload.length - 2) = body := by
      rw [List.take_append_of_le_length (by omega), List.take_of_length_le (by omega)]
    have hdrop : (body ++ le16 (crc body)).drop (19 + payload.length - 2) = le16 (crc body) := by
      have : 19 + payload.length - 2 = body.length := by omega
      rw [this, List.drop_left]
    rw [htake, hdrop, le16_eq]
    simp only [ofLe16_le16 (crc body) (by omega), if_true]
    have hp : ((padSubject sub ++ payload ++ [UInt8.ofNat (crc body % 256), UInt8.ofNat (crc body / 256 % 256)]).drop 16).take
        (19 + payload.length - 19) = payload := by
      rw [List.append_assoc, ← hpl, List.drop_left]
      rw [List.take_append_of_le_length (by omega), List.take_of_length_le (by omega)]
    rw [hp]

/-- a checksummed packet produced by the encoder has syndrome zero -/
theorem c17_encode_valid (seq : UInt8) (sub payload p : Bytes) (h : encode seq sub payload = .ok p)
    (hlog : sub ≠ logSubject) : run 0 (bitsOf p) = 0 := by
  unfold encode at h
  split at h
  · cases h
  · simp only [if_neg hlog] at h
    injection h with h
    rw [← h, le16_eq]
    exact syndrome_zero _ _ _ (ofLe16_le16 _ (by have := crc_lt (seq :: (padSubject sub ++ payload)); omega))

/-- **C17 detection (main).** Let `p` be any checksummed packet (syndrome zero) of fewer than
32767 bits and `e` ANY error pattern of the same length that is a burst of up to 16 bits (in
transmission order, at any position: header, payload, trailer or straddling) or a one- or two-bit
error. If the decoder accepts the corrupted packet at all, then its subject field reads `log`
— the one exemption the protocol makes. In every other case the packet is rejected. -/
theorem c17_detects (p e : Bytes) (hlen : p.length = e.length) (hvalid : run 0 (bitsOf p) = 0)
    (hsize : 8 * p.length < 32767) (hclass : Burst16 (bitsOf e) ∨ AtMostTwo (bitsOf e))
    (r : Decoded) (h : decode (xorBytes p e) = .ok r) : r.subject = logSubject := by
  apply Classical.byContradiction
  intro hne
  obtain ⟨body, lo, hi, hd, hcrc⟩ := decode_accept _ r h hne
  have hz := syndrome_zero body lo hi hcrc
  rw [← hd, syndrome_xor p e hlen, hvalid, Nat.zero_xor] at hz
  exact detect_bits (bitsOf e) (by rw [bitsOf_length, ← hlen]; exact hsize) hclass hz

/-- **C17 log exemption cannot be reached from a safe subject.** If the 16-byte subject field of
the original packet satisfies the decidable predicate `SubjectSafe`, no burst of up to 16 bits and
no one- or two-bit error — anywhere in the packet — makes the decoder read the subject `log`. -/
theorem c17_subject_safe (p e : Bytes) (hlen : p.length = e.length) (h17 : 17 ≤ p.length)
    (hsafe : SubjectSafe (field p) = true) (hclass : Burst16 (bitsOf e) ∨ AtMostTwo (bitsOf e)) :
    trimNul (field (xorBytes p e)) ≠ logSubject := by
  intro hlog
  have hfl : (field p).length = 16 := field_length p h17
  have hel : (field e).length = 16 := field_length e (by omega)
  rw [field_xor] at hlog
  obtain ⟨a, ha, hT⟩ := trim_log _ (by rw [xorBytes_length _ _ (by omega)]; exact hfl) hlog
  have hE : field e = xorBytes (field p) (target a) := by
    rw [← hT, xorBytes_cancel _ _ (by omega)]
  have hs : SafeAt (bitsOf (xorBytes (field p) (target a))) = true := by
    unfold SubjectSafe at hsafe
    rw [List.all_eq_true] at hsafe
    exact hsafe a (by simp; omega)
  rw [← hE] at hs
  obtain ⟨q1, q2, q3, ql, t1, t2, t3, tl, h12, h23, hfar⟩ := safeAt_spec _ hs
  have T1 := isTrue_field e q1 t1
  have T2 := isTrue_field e q2 t2
  have T3 := isTrue_field e q3 t3
  have TL := isTrue_field e ql tl
  rcases hclass with ⟨_, i, hwin⟩ | ⟨_, i1, i2, htwo⟩
  · have := hwin _ T1; have := hwin _ TL; omega
  · have := htwo _ T1; have := htwo _ T2; have := htwo _ T3; omega

/-- **C17 detection, complete form.** A checksummed packet whose subject field is `SubjectSafe`,
altered by any burst of up to 16 bits or any one- or two-bit error, is never accepted. -/
theorem c17_detects_safe (p e : Bytes) (hlen : p.length = e.length) (hvalid : run 0 (bitsOf p) = 0)
    (hsize : 8 * p.length < 32767) (h17 : 17 ≤ p.length) (hsafe : SubjectSafe (field p) = true)
    (hclass : Burst16 (bitsOf e) ∨ AtMostTwo (bitsOf e)) (r : Decoded) :
    decode (xorBytes p e) ≠ .ok r := by
  intro h
  have h1 := c17_detects p e hlen hvalid hsize hclass r h
  have h2 := decode_subject _ r h
  exact c17_subject_safe p e hlen h17 hsafe hclass (by rw [← h2]; exact h1)

/-- the documented constant subjects are safe: blank (MCU root node), `ack`, `phr` -/
theorem c17_documented_subjects_safe :
    SubjectSafe (padSubject []) = true ∧
    SubjectSafe (padSubject [97, 99, 107]) = true ∧        -- "ack"
    SubjectSafe (padSubject [112, 104, 114]) = true ∧      -- "phr"
    SubjectSafe (padSubject [112, 46, 110, 111, 100, 101, 49]) = true ∧   -- "p.node1"
    SubjectSafe (padSubject [112, 46, 97, 98, 46, 99, 100]) = true := by  -- "p.ab.cd"
  decide

/-- **The hypothesis is necessary (known finding).** On subject `p.g` a 13-bit burst turns the
subject field into `log`; the result is accepted without any checksum, with a different subject. -/
theorem c17_unsafe_witness :
    let p : Bytes := 7 :: (padSubject [112, 46, 103] ++ [1, 2, 3])          -- seq 7, "p.g", payload 01 02 03 (+ any trailer)
    let e : Bytes := 0 :: ([0x1c, 0x41] ++ List.replicate 19 0)
    SubjectSafe (field p) = false ∧
    (decode (xorBytes (p ++ [0, 0]) e)).isPanic = false ∧
    (∃ r, decode (xorBytes (p ++ [0, 0]) e) = .ok r ∧ r.subject = logSubject) := by
  refine ⟨by decide, by decide, ⟨⟨7, logSubject, [1, 2, 3, 0, 0]⟩, by decide, rfl⟩⟩

/-- Tie A: subject width, the exemption literal and the KERMIT parameters as they are in the
sources right now. -/
theorem gen_serial_pinned :
    Gen.serialSubjectWidth = 16 ∧ Gen.serialLogSubject = "log" ∧ Gen.serialDecodeCmps = ["<1", "<17", "!=\"log\"", "<19", "!=crcCalc"] ∧
    Gen.serialEncodeCmps = [">16", "==\"log\""] ∧
    Gen.crc16CCITTPoly = 0x8408 ∧ Gen.crc16CCITTTableCtor = "MakeTableNoXOR" ∧ Gen.crc16ChecksumCCITTInit = 0 := by
  decide

/-- non-vacuity of `c17_detects_safe`: the frame the encoder writes for subject "ack", payload 01 02 03, sequence 7, and an
    error pattern that flips eight adjacent bits inside the subject field -/
example :
    let p : Bytes := (7 : UInt8) :: (padSubject [97, 99, 107] ++ [1, 2, 3]) ++ le16 (crc ((7 : UInt8) :: (padSubject [97, 99, 107] ++ [1, 2, 3])))
    let e : Bytes := List.replicate 3 0 ++ [255] ++ List.replicate 18 0
    encode 7 [97, 99, 107] [1, 2, 3] = .ok p ∧ p.length = e.length ∧ run 0 (bitsOf p) = 0 ∧ 8 * p.length < 32767 ∧ 17 ≤ p.length ∧
      SubjectSafe (field p) = true ∧ Burst16 (bitsOf e) := by
  intro p e
  refine ⟨by decide +kernel, by decide +kernel, by decide +kernel, by decide +kernel, by decide +kernel, by decide +kernel, ?_⟩
  refine ⟨⟨24, by unfold IsTrue; decide +kernel⟩, 24, ?_⟩
  intro j hj
  have hlt : j < (bitsOf e).length := by
    unfold IsTrue at hj
    exact (List.getElem?_eq_some_iff.mp hj).1
  have hlen : (bitsOf e).length = 176 := by decide +kernel
  rw [hlen] at hlt
  have key : ∀ j : Fin 176, (bitsOf e)[j.val]? = some true → 24 ≤ j.val ∧ j.val ≤ 24 + 15 := by decide +kernel
  exact key ⟨j, hlt⟩ hj

end Siot.Serial
