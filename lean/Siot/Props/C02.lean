import Siot.Lemmas.Sync
import Siot.Lemmas.SyncExchange
import Siot.Gen.Sync
import Siot.Lemmas.SyncLoop
import Siot.Lemmas.SyncTree
import Siot.Lemmas.SyncSendTree
import Siot.Lemmas.StoreRows
import Siot.Props.C03
import Siot.Gen.SyncLoop
/-
C02 — Linked instances converge on the shared device tree.
Property theorems only; helper lemmas live in Siot/Lemmas/Sync.lean.

What is proved: (1) the catch-up pass never takes anything back — on both instances, for every node and
edge, every point identity only moves to newer points (`c02_no_write_lost`), for any tree, any hashes,
any interleaving of the pass's own writes; (2) the exchange of points between the two copies of one
node (or edge) leaves BOTH sides with exactly the newest point of every identity
(`c02_points_converge`); (2') for two stores with the same nodes below `n`, one pass makes the points of the nodes and edges of the
whole subtree agree PROVIDED the hash comparison is faithful there (`c02_pass_converges_where_hash_is_faithful`).
What is NOT proved: that the hash comparison is faithful (it is not: open findings — changes that cancel in the XOR
hash), nor the missing-node analogue of (2') — partial.
(3) The loop around the pass (`SyncClient.Run`, model `Siot.SyncLoop`): for every sequence of link events, timer
firings, local writes and configuration changes, a catch-up pass runs at every (re)connection and then periodically for
as long as the link is reported up, local writes are forwarded exactly while it is, and a client that is not disabled
always has an upstream connection or a reconnection pending (`c02_loop_*`).
-/
namespace Siot.Sync
open Siot Siot.Store Siot.Export

/-- **C02 (no accepted write is lost or reverted).** Start from any two reachable stores. After a
catch-up pass for any node — whatever the tree, the hashes, the wall clock readings, however deep the
recursion goes — on BOTH instances, for every node and every edge, each point that was there is still
there or has been replaced by a point of the same identity that is at least as new; and both stores
still satisfy the store invariants (one row per identity, consistent hashes, acyclic). -/
theorem c02_no_write_lost (wall : Int → Int) (fuel : Nat) (s : Pair) (ha : Inv s.a) (hb : Inv s.b) (parent id : Bytes) :
    let s' := syncNode wall fuel s parent id
    StLe s.a s'.a ∧ StLe s.b s'.b ∧ Inv s'.a ∧ Inv s'.b := by
  intro s'
  have h := syncNode_fwd wall fuel s s parent id ⟨⟨ha, StLe.refl _⟩, ⟨hb, StLe.refl _⟩⟩
  exact ⟨h.1.2, h.2.2, h.1.1, h.2.1⟩

theorem flatten_singletons {α} (l : List α) : (l.map (fun q => [q])).flatten = l := by
  induction l with
  | nil => rfl
  | cons a l ih => simp [ih]

/-- **C02 (the exchange of points converges).** Let `L` and `U` be the rows of one node (or one edge) on
the downstream and the upstream instance: one row per identity each, stored (normalised) points, and two
different points of one identity never carrying the same time stamp. Write what `syncPts` selects for
each direction, point by point, through the store's merge. Then both sides hold exactly the newest point
of every identity found on either side — the same rows. -/
theorem c02_points_converge (L U : List Point) (hL : IdUnique L) (hU : IdUnique U)
    (hnL : ∀ p ∈ L, normPoint p = p) (hnU : ∀ p ∈ U, normPoint p = p) (hadm : Admissible (L ++ U)) (p : Point) :
    let L' := rowsAfter L ((syncPts L U).2.map (fun q => [q]))
    let U' := rowsAfter U ((syncPts L U).1.map (fun q => [q]))
    (p ∈ L' ↔ Newest (L ++ U) p) ∧ (p ∈ U' ↔ Newest (L ++ U) p) := by
  intro L' U'
  have hdown : delivered ((syncPts L U).2.map (fun q => [q])) = (syncPts L U).2 := by
    unfold delivered
    rw [flatten_singletons]
    conv => rhs; rw [← List.map_id (syncPts L U).2]
    apply List.map_congr_left
    intro q hq
    exact hnU q ((mem_toDown L U hU q).mp hq).1
  have hup : delivered ((syncPts L U).1.map (fun q => [q])) = (syncPts L U).1 := by
    unfold delivered
    rw [flatten_singletons]
    conv => rhs; rw [← List.map_id (syncPts L U).1]
    apply List.map_congr_left
    intro q hq
    exact hnL q ((mem_toUp L U hU q).mp hq).1
  have h1 := rowsAfter_lww ((syncPts L U).2.map (fun q => [q])) L L (Feed.idUnique_lww_self L hL)
  have h2 := rowsAfter_lww ((syncPts L U).1.map (fun q => [q])) U U (Feed.idUnique_lww_self U hU)
  rw [hdown] at h1
  rw [hup] at h2
  have a1 : Admissible (L ++ (syncPts L U).2) := by
    intro a ha b hb
    apply hadm a _ b _
    · simp only [List.mem_append] at ha ⊢
      rcases ha with ha | ha
      · exact Or.inl ha
      · exact Or.inr ((mem_toDown L U hU a).mp ha).1
    · simp only [List.mem_append] at hb ⊢
      rcases hb with hb | hb
      · exact Or.inl hb
      · exact Or.inr ((mem_toDown L U hU b).mp hb).1
  have a2 : Admissible (U ++ (syncPts L U).1) := by
    intro a ha b hb
    apply hadm a _ b _
    · simp only [List.mem_append] at ha ⊢
      rcases ha with ha | ha
      · exact Or.inr ha
      · exact Or.inl ((mem_toUp L U hU a).mp ha).1
    · simp only [List.mem_append] at hb ⊢
      rcases hb with hb | hb
      · exact Or.inr hb
      · exact Or.inl ((mem_toUp L U hU b).mp hb).1
  constructor
  · rw [lww_mem_iff _ _ h1 a1 p]
    exact newest_down_iff L U hL hU hadm p
  · rw [lww_mem_iff _ _ h2 a2 p]
    exact newest_up_iff L U hL hU hadm p

/-- **C02 (where the pass looks, the two stores agree afterwards).** The same on the store model itself:
when `syncNode` reaches a node that both instances hold (snapshots `nl`, `nu` of its two copies) and performs
the exchange, then afterwards the node's rows on the downstream store and on the upstream store are the same —
for every identity the newest point found on either side — provided the stored rows are well formed (what the
store writes: normalised, never NaN) and two different points of one identity never share a time stamp. -/
theorem c02_exchange_converges_on_stores (s : Pair) (ha : Inv s.a) (hb : Inv s.b) (nl nu : NE) (hid : nu.id = nl.id)
    (hl : nl.pts = ptsOf s.a nl.id) (hu : nu.pts = ptsOf s.b nl.id)
    (hsl : StoredRows (ptsOf s.a nl.id)) (hsu : StoredRows (ptsOf s.b nl.id))
    (hadm : Admissible (ptsOf s.a nl.id ++ ptsOf s.b nl.id)) (p : Point) :
    (p ∈ ptsOf (syncExchange s nl nu).a nl.id ↔ Newest (ptsOf s.a nl.id ++ ptsOf s.b nl.id) p) ∧
    (p ∈ ptsOf (syncExchange s nl nu).b nl.id ↔ Newest (ptsOf s.a nl.id ++ ptsOf s.b nl.id) p) := by
  obtain ⟨r1, r2⟩ := syncExchange_node_rows s nl nu hid hl hu hsl hsu
  rw [r1, r2]
  exact c02_points_converge _ _ (ha.npu nl.id) (hb.npu nl.id) (fun q hq => (hsl q hq).1) (fun q hq => (hsu q hq).1) hadm p

/-- a pass leaves equal hashes alone: where the two copies of a node carry the same hash, nothing is
    written at all (the pass relies on the hash to find differences — see the open findings) -/
theorem c02_equal_hash_is_skipped (wall : Int → Int) (fuel : Nat) (s : Pair) (parent id : Bytes) (nl nu : NE) (rl ru : List NE)
    (h1 : getNodes s.a (if parent = rootS then allS else parent) id true = nl :: rl)
    (h2 : getNodes s.b (if parent = rootS then allS else parent) id true = nu :: ru)
    (hd : deletedUpstream s nl (nu :: ru) = false)
    (hh : cmpHash (nl.id == s.a.root) nl = cmpHash (nl.id == s.a.root) nu) :
    syncNode wall (fuel + 1) s parent id = s := by
  simp only [syncNode, h1, h2, hd, Bool.false_eq_true, if_false, hh, if_true]

/-- non-vacuity of the exchange theorem: one identity newer downstream, one newer upstream, one on each side only -/
example :
    let L : List Point := [{ type := [118], key := [48], time := 5, value := 1 }, { type := [100], key := [48], time := 2 }, { type := [108], key := [48], time := 1 }]
    let U : List Point := [{ type := [118], key := [48], time := 3, value := 2 }, { type := [100], key := [48], time := 7, text := [120] }, { type := [116], key := [48], time := 4 }]
    (syncPts L U).1.map (·.type) = [[118], [108]] ∧ (syncPts L U).2.map (·.type) = [[100], [116]] := by decide

/-- **C02 (an agreed node is left alone).** When the downstream and the upstream copy of a node (or edge) hold the same
points — the state `c02_points_converge` establishes — the exchange selects nothing for either direction: a pass over
converged copies writes nothing, on either side, so agreement once reached is kept by every later pass (together with
`c02_no_write_lost`: only a new write can move it). -/
theorem c02_agreed_node_is_quiet (L U : List Point) (hL : IdUnique L) (hU : IdUnique U) (h : ∀ p, p ∈ L ↔ p ∈ U) :
    syncPts L U = ([], []) := by
  have h1 : (syncPts L U).1 = [] := by
    rw [List.eq_nil_iff_forall_not_mem]
    intro p hp
    obtain ⟨hpL, hc⟩ := (mem_toUp L U hU p).mp hp
    have hpU := (h p).mp hpL
    rcases hc with ⟨u, hu, hs, ht⟩ | hnone
    · have : u = p := idUnique_eq U hU u p hu hpU hs
      subst this; omega
    · have := hnone p hpU
      rw [sameId_refl] at this
      cases this
  have h2 : (syncPts L U).2 = [] := by
    rw [List.eq_nil_iff_forall_not_mem]
    intro q hq
    obtain ⟨hqU, hc⟩ := (mem_toDown L U hU q).mp hq
    have hqL := (h q).mpr hqU
    rcases hc with ⟨l, hl, hs, ht⟩ | hnone
    · have : q = l := idUnique_eq L hL q l hqL hl hs
      subst this; omega
    · have := hnone q hqL
      rw [sameId_refl] at this
      cases this
  exact Prod.ext h1 h2

/-- **C02 (the pass is local).** Let both stores hold the node `n` under the parent `p` with the same descendants
(`Ctx`: the edges of either store form a forest — no mirrors, no cycle —, every node below `n` has the same child edges on
both sides, none of them is a root node or carries one of the reserved names). Then a catch-up pass for `n`, however
deep it goes, inserts no edge on either side, keeps both stores well formed and only ever moves points forward
(`PFwd`), and changes nothing either store holds for a node outside the subtree of `n` — neither its points nor the
points of the edge into it. -/
theorem c02_pass_is_local (wall : Int → Int) (KA KB : List Sh) (rootA rootB : Bytes) (fuel : Nat) (s : Pair) (p n ta tb : Bytes)
    (hg : Good KA KB rootA rootB s) (hc : Ctx KA KB rootA rootB n) (hka : (p, n, ta) ∈ KA) (hkb : (p, n, tb) ∈ KB)
    (hp1 : p ≠ rootS) (hp2 : p ≠ allS) (hp3 : p ≠ []) :
    Good KA KB rootA rootB (syncNode wall fuel s p n) ∧ PFwd s (syncNode wall fuel s p n) ∧
    ∀ m, ¬ Below KA n m → Same s.a (syncNode wall fuel s p n).a m ∧ Same s.b (syncNode wall fuel s p n).b m :=
  syncNode_loc wall KA KB rootA rootB fuel s p n ta tb hg hc hka hkb hp1 hp2 hp3

/-- **C02 (one pass makes whole subtrees agree — exactly as far as the hash comparison is faithful).** In the setting
of `c02_pass_is_local`, with stored rows and distinct time stamps per identity below `n` (`RowsOkAt`, for node points and
edge points), assume that on the states that can follow `s` (every point only moved forward) two copies of an edge
below `n` never carry the same hash unless their subtrees hold the same points (`Faithful`: the purpose of the Merkle
hash; it FAILS when changes cancel in the XOR — the two open findings — and for CRC collisions). Then after ONE pass
for `n` the two stores hold the same points for `n`, for every node below it and for every edge between them
(`AgreeAt`), down to the depth the recursion budget reaches (the budget in use is 2^|edges|): the newest point of every
identity written on either side, nothing lost (`c02_no_write_lost`). So the only way a difference survives a pass over
equal trees is an equal-hash comparison that hides it. -/
theorem c02_pass_converges_where_hash_is_faithful (wall : Int → Int) (KA KB : List Sh) (rootA rootB : Bytes) (fuel : Nat) (s : Pair)
    (p n ta tb : Bytes) (hg : Good KA KB rootA rootB s) (hc : Ctx KA KB rootA rootB n) (hka : (p, n, ta) ∈ KA) (hkb : (p, n, tb) ∈ KB)
    (hp1 : p ≠ rootS) (hp2 : p ≠ allS) (hp3 : p ≠ [])
    (hrows : ∀ m, Below KA n m → RowsOkAt KA s m) (hfaith : ∀ t, PFwd s t → Faithful KA n t) :
    ∀ d m, d < fuel → BelowD KA n d m → AgreeAt KA (syncNode wall fuel s p n) m := by
  apply syncNode_conv wall KA KB rootA rootB ?_ fuel s p n ta tb hg hc hka hkb hp1 hp2 hp3 hrows hfaith
  intro s ea eb ia ib hea heb hup hdn hpne hnp hra hrb hr her
  constructor
  · intro q
    have hu : (neOf s.b eb).pts = ptsOf s.b (neOf s.a ea).id := by simp only [neOf]; rw [hdn]
    obtain ⟨h1, h2⟩ := c02_exchange_converges_on_stores s ia ib (neOf s.a ea) (neOf s.b eb) hdn.symm rfl hu hr.sl hr.su hr.adm q
    exact h1.trans h2.symm
  · intro q
    obtain ⟨r1, r2⟩ := syncExchange_edge_rows s ea eb ea.up ea.down hea heb rfl rfl hup.symm hdn.symm hpne hnp hra hrb
      (fun x hx => ⟨(her.sl x hx).2, her.tl x hx⟩) (fun x hx => ⟨(her.su x hx).2, her.tu x hx⟩) (ib.epu (ea.up, ea.down))
    rw [r1, r2]
    obtain ⟨h1, h2⟩ := c02_points_converge _ _ (ia.epu (ea.up, ea.down)) (ib.epu (ea.up, ea.down)) (fun x hx => (her.sl x hx).1)
      (fun x hx => (her.su x hx).1) her.adm q
    exact h1.trans h2.symm

/-- … and with a recursion budget larger than the number of local edges — the Go recursion has no budget at all, the
    correspondence driver runs the model with 2^(|A| + |B|) + 2 — the
    depth premise disappears: a forest of |KA| edges has no path longer than |KA| (`belowD_depth`), so the agreement holds
    for EVERY node below `n`. -/
theorem c02_pass_converges_whole_subtree (wall : Int → Int) (KA KB : List Sh) (rootA rootB : Bytes) (fuel : Nat) (s : Pair)
    (p n ta tb : Bytes) (hg : Good KA KB rootA rootB s) (hc : Ctx KA KB rootA rootB n) (hka : (p, n, ta) ∈ KA) (hkb : (p, n, tb) ∈ KB)
    (hp1 : p ≠ rootS) (hp2 : p ≠ allS) (hp3 : p ≠ [])
    (hrows : ∀ m, Below KA n m → RowsOkAt KA s m) (hfaith : ∀ t, PFwd s t → Faithful KA n t) (hfuel : KA.length < fuel) :
    ∀ m, Below KA n m → AgreeAt KA (syncNode wall fuel s p n) m := by
  intro m ⟨d, hd⟩
  have := belowD_depth KA.length KA rfl hc.ta n m d hd
  exact c02_pass_converges_where_hash_is_faithful wall KA KB rootA rootB fuel s p n ta tb hg hc hka hkb hp1 hp2 hp3 hrows hfaith d m
    (by omega) hd

/-- non-vacuity of the tree hypotheses: a node `a` under `R` with two children, one of which has a child, the same on
    both sides (the upstream has one more node elsewhere) -/
example :
    let KA : List Sh := [(rootS, [82], [100]), ([82], [97], [100]), ([97], [98], [100]), ([97], [99], [100]), ([98], [101], [100])]
    let KB : List Sh := KA ++ [([82], [120], [100])]
    Ctx KA KB [82] [120, 120] [97] := by
  intro KA KB
  have hr : ∀ (K : List Sh), (∀ k ∈ K, k ∈ KB) → ∃ r : Bytes → Nat, ∀ k ∈ K, r k.1 < r k.2.1 := by
    intro K hK
    refine ⟨fun b => if b = rootS then 0 else if b = [82] then 1 else if b = [97] then 2 else if b = [98] then 3 else if b = [99] then 3
      else if b = [120] then 2 else 4, ?_⟩
    intro k hk
    have := hK k hk
    simp only [KB, KA, List.cons_append, List.nil_append, List.mem_cons, List.not_mem_nil, or_false] at this
    rcases this with rfl | rfl | rfl | rfl | rfl | rfl <;> decide
  have hbelow : ∀ m, Below KA [97] m → m = [97] ∨ m = [98] ∨ m = [99] ∨ m = [101] := by
    intro m hm
    obtain ⟨d, hd⟩ := hm
    induction hd with
    | refl => exact Or.inl rfl
    | step k d hk _ ih =>
      simp only [KA, List.mem_cons, List.not_mem_nil, or_false] at hk
      rcases hk with rfl | rfl | rfl | rfl | rfl
      · rcases ih with h | h | h | h <;> exact absurd h (by decide)
      · rcases ih with h | h | h | h <;> exact absurd h (by decide)
      · exact Or.inr (Or.inl rfl)
      · exact Or.inr (Or.inr (Or.inl rfl))
      · exact Or.inr (Or.inr (Or.inr rfl))
  refine ⟨⟨hr KA (fun k hk => List.mem_append_left _ hk), by decide⟩, ⟨hr KB (fun k hk => hk), by decide⟩, ?_, ?_⟩
  · intro m hm
    rcases hbelow m hm with rfl | rfl | rfl | rfl <;> decide
  · intro m hm
    rcases hbelow m hm with rfl | rfl | rfl | rfl <;> decide

/-- **C02 (real-time forwarding: the order of arrival does not matter).** While the link is up every write accepted on one
side is forwarded to the other (`c02_loop_forward_iff_connected`), where it is applied by the same store request as a
local write. Take one node (or one edge): let `arrA` be the batches in the order, grouping and multiplicity in which they
reached the store of A — its own writes interleaved with the forwarded ones, duplicates and re-deliveries included — and
`arrB` the same for B. If every point that reached one side also reached the other (`hsame`), the two stores hold
exactly the same rows for that node, and each row is the newest point delivered for its identity — whatever the
interleaving on either side. (This is C01's order-independence read for two instances; the premise "also reached the
other" is what forwarding plus the catch-up pass after an outage provide, and is not proved here for the NATS layer.) -/
theorem c02_forwarding_order_irrelevant (arrA arrB : List (List Point))
    (hsame : ∀ p, p ∈ delivered arrA ↔ p ∈ delivered arrB) (hadm : Admissible (delivered arrA)) :
    (∀ p, p ∈ rowsAfter [] arrA ↔ p ∈ rowsAfter [] arrB) ∧ ∀ p, p ∈ rowsAfter [] arrA ↔ Newest (delivered arrA) p := by
  have h0 : LWW ([] : List Point) [] := ⟨by simp [IdUnique], by simp, by simp⟩
  have key : ∀ (bs : List (List Point)), Admissible (delivered bs) → ∀ p, p ∈ rowsAfter [] bs ↔ Newest (delivered bs) p := by
    intro bs hadm p
    have h := rowsAfter_lww bs [] [] h0
    simp only [List.nil_append] at h
    constructor
    · exact h.newest p
    · intro hN
      obtain ⟨r, hr, hrs⟩ := h.cover p hN.1
      have hrN := h.newest r hr
      have h1 := hN.2 r hrN.1 hrs
      have h2 := hrN.2 p hN.1 (by rw [sameId_symm]; exact hrs)
      have : r = p := hadm r hrN.1 p hN.1 hrs (by omega)
      rw [← this]; exact hr
  have hadm' : Admissible (delivered arrB) := by
    intro a ha b hb
    exact hadm a ((hsame a).mpr ha) b ((hsame b).mpr hb)
  refine ⟨fun p => ?_, key arrA hadm⟩
  rw [key arrA hadm, key arrB hadm']
  unfold Newest
  constructor
  · rintro ⟨h1, h2⟩; exact ⟨(hsame p).mp h1, fun q hq => h2 q ((hsame q).mpr hq)⟩
  · rintro ⟨h1, h2⟩; exact ⟨(hsame p).mpr h1, fun q hq => h2 q ((hsame q).mp hq)⟩

/-- non-vacuity: two writes of one identity and one of another, arriving one by one on A, in the other order and in one
    batch — with a re-delivery — on B -/
example :
    let p1 : Point := { type := [1], key := zeroKey, time := 5, value := 1 }
    let p2 : Point := { type := [1], key := zeroKey, time := 7, value := 2 }
    let q : Point := { type := [2], key := zeroKey, time := 6, value := 3 }
    (∀ p, p ∈ delivered [[p1], [q], [p2]] ↔ p ∈ delivered [[p2, q, p1], [p1]]) ∧ Admissible (delivered [[p1], [q], [p2]]) := by
  intro p1 p2 q
  constructor
  · intro p
    have e1 : delivered [[p1], [q], [p2]] = [p1, q, p2] := by decide
    have e2 : delivered [[p2, q, p1], [p1]] = [p2, q, p1, p1] := by decide
    rw [e1, e2]
    simp only [List.mem_cons, List.not_mem_nil, or_false]
    constructor
    · rintro (h | h | h)
      · exact Or.inr (Or.inr (Or.inl h))
      · exact Or.inr (Or.inl h)
      · exact Or.inl h
    · rintro (h | h | h | h)
      · exact Or.inr (Or.inr h)
      · exact Or.inr (Or.inl h)
      · exact Or.inl h
      · exact Or.inl h
  · have e1 : delivered [[p1], [q], [p2]] = [p1, q, p2] := by decide
    rw [e1]
    unfold Admissible
    decide

/-- **C02 (the "stored rows" premises hold on every store).** The convergence theorems above take as premises that the
rows of the two stores are stored rows (`StoredRows`: key never empty, value neither -0 nor NaN), one row per identity
(`IdUnique`), and that the node type is never an edge row. These are not assumptions about the instances: from the empty
store, after ANY sequence of write requests (accepted or refused), every node and every edge of the store satisfies
them — the store normalises what it writes and refuses NaN (`rowInv_run`), and keeps one row per identity
(`c03_reachable`). What remains a genuine premise of those theorems is the distinctness of time stamps per identity
(`Admissible`, the property's own "distinct timestamps per identity") and the shape of the trees. -/
theorem c02_stored_rows_on_every_store (ops : List WOp) :
    (∀ id, StoredRows (ptsOf (run {} ops) id) ∧ IdUnique (ptsOf (run {} ops) id)) ∧
    (∀ u d, StoredRows (eptsOf (run {} ops) u d) ∧ IdUnique (eptsOf (run {} ops) u d) ∧
      ∀ p ∈ eptsOf (run {} ops) u d, p.type ≠ nodeTypeT) := by
  have hr := rowInv_run ops {} rowInv_empty
  have hi := c03_reachable ops
  exact ⟨fun id => ⟨storedRows_pts _ hr id, hi.npu id⟩,
    fun u d => ⟨storedRows_epts _ hr u d, hi.epu (u, d), epts_no_nodeType _ hr u d⟩⟩

/-- **C02 (a subtree the upstream instance does not have yet arrives whole).** The catch-up pass meets a local node
that upstream lacks — the node itself (`syncNode`, nothing returned upstream) or a child (`syncChildren`, no upstream child
of that id) — and calls `sendNodesRemote` for it: `SendNode` for the node, then, recursively, for every child the local
store lists as not deleted. Let the local store be a forest whose live subtree below `e` consists of stored rows under ordinary ids (`SrcOk`; nothing is
asked of the rest of the store), `e` the local edge
sent below `P` (its own parent, or the upstream root for a root device), `P` not inside the subtree, and let the upstream store
know none of the ids of the live subtree below `e` (`Fresh`: no edge, no point). Then with the budget in use (2^|edges| + 1,
which `belowD_depth` shows to exceed every depth of a forest): nothing fails, the local store is untouched, EVERY node of
the live subtree — at any depth — holds upstream exactly the points it holds locally, every edge of it exactly the local
edge points (plus the mark "not deleted", stamped with a reading of the upstream clock, where the local edge carries no
deletion mark), and nothing else upstream changes. So after the transfer the two copies of the subtree agree point for
point; together with `c02_pass_converges_where_hash_is_faithful` (equal trees) this covers both cases the pass
distinguishes. Not covered: ids already known upstream somewhere else (mirrors, moved nodes). -/
theorem c02_missing_subtree_is_sent (wall : Int → Int) (s : Pair) (e : Edge) (hs : SrcOk s.a e.down) (P : Bytes) (he : e ∈ s.a.edges)
    (hP1 : P ≠ []) (hP2 : P ≠ noneS) (hP3 : P ≠ rootS) (hPb : ¬ Below (liveK s.a) e.down P)
    (hfresh : ∀ m, Below (liveK s.a) e.down m → Fresh s.b m) :
    (toRemote wall s { neOf s.a e with parent := P }).a = s.a ∧
    (∀ m, Below (liveK s.a) e.down m → ptsOf (toRemote wall s { neOf s.a e with parent := P }).b m = ptsOf s.a m) ∧
    (∃ k, eptsOf (toRemote wall s { neOf s.a e with parent := P }).b P e.down = sentE (eptsOf s.a e.up e.down) (wall k)) ∧
    (∀ c ∈ liveEdges s.a, Below (liveK s.a) e.down c.up →
      ∃ k, eptsOf (toRemote wall s { neOf s.a e with parent := P }).b c.up c.down = sentE (eptsOf s.a c.up c.down) (wall k)) ∧
    (∀ y, ¬ Below (liveK s.a) e.down y → Same s.b (toRemote wall s { neOf s.a e with parent := P }).b y) :=
  toRemote_sent wall s e hs P he hP1 hP2 hP3 hPb hfresh

/-- **C02 (a subtree missing DOWNSTREAM arrives one level per pass — as the code is).** `sendNodesLocal` sends the upstream
node to the local store and then lists the children of that id in the LOCAL store (`GetNodes(up.nc, …)`, pinned by
`gen_sync_pinned`), not upstream. For a node the local store has nothing below (it is being created there) the list is
empty, so the call is `SendNode` of that one node and nothing else: the children upstream are not looked at in this pass.
They arrive in the following passes — the node now exists on both sides with different hashes, `syncChildren` descends
and finds its children missing locally — one level per pass, whereas a subtree missing upstream arrives whole
(`c02_missing_subtree_is_sent`). The instances still converge (every pass adds a level, and passes keep coming while the
link is up: `c02_loop_catch_up_while_connected`), so this is recorded as an observation about latency, not as a violation;
the correspondence run starts with a corpus case (`harness/corpus/C02.cases`: three levels created upstream, three passes) on which the model, which has this behaviour, must reproduce the implementation's dumps. -/
theorem c02_missing_downstream_arrives_one_level_per_pass (wall : Int → Int) (s : Pair) (n : NE) (hn2 : n.id ≠ rootS) (hn3 : n.id ≠ allS)
    (h : ∀ e ∈ s.a.edges, e.up ≠ n.id) :
    toLocal wall s n = { s with a := sendNodeState s.a n (wall s.clk), clk := s.clk + 1 } :=
  toLocal_one_level wall s n hn2 hn3 h

/-- … and the transfer leaves the upstream store a store: edges still form a ranked graph with one row per identity, and every
    stored hash — of the new edges and of everything above them — is the Merkle hash of the content (`Inv`, the invariant of C03),
    with no point of any node or edge moved backwards (`StLe`). -/
theorem c02_missing_subtree_keeps_store_invariant (wall : Int → Int) (s : Pair) (n : NE) (ha : Inv s.a) (hb : Inv s.b) :
    Inv (toRemote wall s n).b ∧ StLe s.b (toRemote wall s n).b :=
  (toRemote_fwd wall s s n (pfwd_refl s ha hb)).2

/-- **C02 (the pass itself, for a node upstream lacks).** `syncNode(parent, id)` for a local node — not the root device —
that the upstream store has no edge into IS the transfer of `c02_missing_subtree_is_sent` (for any positive budget): the pass
finds the node locally, finds nothing upstream, and calls `sendNodesRemote`. With the premises of that theorem (here with
`P` the node's own parent) the conclusions hold for the state the pass returns: the whole live subtree is upstream with the
local rows, the local store untouched, nothing else changed. -/
theorem c02_pass_sends_a_node_missing_upstream (wall : Int → Int) (fuel : Nat) (s : Pair) (e : Edge) (hs : SrcOk s.a e.down) (he : e ∈ s.a.edges)
    (hp1 : e.up ≠ rootS) (hp2 : e.up ≠ allS) (hP1 : e.up ≠ []) (hP2 : e.up ≠ noneS) (hPb : ¬ Below (liveK s.a) e.down e.up)
    (hfresh : ∀ m, Below (liveK s.a) e.down m → Fresh s.b m) :
    (syncNode wall (fuel + 1) s e.up e.down).a = s.a ∧
    (∀ m, Below (liveK s.a) e.down m → ptsOf (syncNode wall (fuel + 1) s e.up e.down).b m = ptsOf s.a m) ∧
    (∃ k, eptsOf (syncNode wall (fuel + 1) s e.up e.down).b e.up e.down = sentE (eptsOf s.a e.up e.down) (wall k)) ∧
    (∀ c ∈ liveEdges s.a, Below (liveK s.a) e.down c.up →
      ∃ k, eptsOf (syncNode wall (fuel + 1) s e.up e.down).b c.up c.down = sentE (eptsOf s.a c.up c.down) (wall k)) ∧
    (∀ y, ¬ Below (liveK s.a) e.down y → Same s.b (syncNode wall (fuel + 1) s e.up e.down).b y) := by
  rw [syncNode_missing wall fuel s e hs he hp1 hp2 (hfresh e.down (Below.refl _ _))]
  exact toRemote_sent wall s e hs e.up he hP1 hP2 hp1 hPb hfresh

/-- … and what does arrive in that pass is right: the node exists locally afterwards, below the same parent and with the same
    type, with exactly the upstream points and edge points (plus the mark "not deleted, now" when the upstream edge carries no
    deletion mark); no other row of the local store changes and the upstream store is not touched. Premises: the upstream
    rows are stored rows with time stamps (`Rows`, `c02_stored_rows_on_every_store`), the local store knows nothing of the id
    (`Fresh`), ordinary ids. -/
theorem c02_missing_downstream_node_is_copied (wall : Int → Int) (s : Pair) (n : NE) (hn2 : n.id ≠ rootS) (hn3 : n.id ≠ allS)
    (hP : Rows n.pts) (hE : Rows n.epts) (hnt : ∀ p ∈ n.epts, p.type ≠ nodeTypeT)
    (hf : Fresh s.a n.id) (hid : n.id ≠ [])
    (hp : n.parent ≠ [] ∧ n.parent ≠ noneS ∧ n.parent ≠ rootS ∧ n.parent ≠ n.id) (ht : n.typ ≠ []) :
    (toLocal wall s n).b = s.b ∧
    shapes (toLocal wall s n).a = shapes s.a ++ [(n.parent, n.id, n.typ)] ∧
    (∀ y, ptsOf (toLocal wall s n).a y = if y = n.id then n.pts else ptsOf s.a y) ∧
    (∀ u d, eptsOf (toLocal wall s n).a u d = if (u, d) = (n.parent, n.id) then sentE n.epts (wall s.clk) else eptsOf s.a u d) :=
  toLocal_copies wall s n hn2 hn3 hP hE hnt hf hid hp ht

/-- the child case of `syncChildren` is the instance `P = e.up` (the record sent is the one `getNodes` returned) -/
example (s : Pair) (e : Edge) : ({ neOf s.a e with parent := e.up } : NE) = neOf s.a e := rfl

/-- non-vacuity: a local store R → a → b (a point on each node, a deletion mark on each edge) and an empty upstream store
    with root "x"; the subtree of `a` is sent below "x" -/
example :
    let tomb : Point := { type := tombstoneT, key := zeroKey, time := 3 }
    let src : St := {
      nodePts := [([97], { type := [1], key := zeroKey, time := 5, value := 1 }), ([98], { type := [1], key := zeroKey, time := 6, value := 2 })]
      edges := [⟨[82], [97], [100], 0⟩, ⟨[97], [98], [100], 0⟩]
      edgePts := [(([82], [97]), tomb), (([97], [98]), tomb)]
      root := [82] }
    let dst : St := { root := [120] }
    SrcOk src [97] ∧ (⟨[82], [97], [100], 0⟩ : Edge) ∈ src.edges ∧ ¬ Below (liveK src) [97] [120] ∧
      ∀ m, Below (liveK src) [97] m → Fresh dst m := by
  intro tomb src dst
  have hK : liveK src = [([82], [97], [100]), ([97], [98], [100])] := by decide
  have hbelow : ∀ m, Below (liveK src) [97] m → m = [97] ∨ m = [98] := by
    intro m hm
    obtain ⟨d, hd⟩ := hm
    induction hd with
    | refl => exact Or.inl rfl
    | step k d hk _ ih =>
      rw [hK] at hk
      simp only [List.mem_cons, List.not_mem_nil, or_false] at hk
      rcases hk with rfl | rfl
      · rcases ih with h | h <;> exact absurd h (by decide)
      · exact Or.inr rfl
  refine ⟨⟨⟨⟨fun b => if b = [82] then 0 else if b = [97] then 1 else 2, ?_⟩, by decide⟩, ?_, ?_⟩, by decide, ?_, ?_⟩
  · intro k hk
    have : k = ([82], [97], [100]) ∨ k = ([97], [98], [100]) := by simpa [shapes, src, shape] using hk
    rcases this with rfl | rfl <;> decide
  · intro f hf _
    have : f = ⟨[82], [97], [100], 0⟩ ∨ f = ⟨[97], [98], [100], 0⟩ := by simpa [src] using hf
    rcases this with rfl | rfl
    · exact ⟨⟨by unfold StoredRows; decide, by unfold IdUnique; decide, by decide⟩, ⟨by unfold StoredRows; decide, by unfold IdUnique; decide, by decide⟩, by decide, by decide⟩
    · exact ⟨⟨by unfold StoredRows; decide, by unfold IdUnique; decide, by decide⟩, ⟨by unfold StoredRows; decide, by unfold IdUnique; decide, by decide⟩, by decide, by decide⟩
  · intro f hf _
    have : f = ⟨[82], [97], [100], 0⟩ ∨ f = ⟨[97], [98], [100], 0⟩ := by simpa [src] using hf
    rcases this with rfl | rfl <;> decide
  · intro h
    rcases hbelow _ h with h | h <;> exact absurd h (by decide)
  · intro m hm
    rcases hbelow m hm with rfl | rfl
    · exact ⟨(fun _ h => nomatch h), rfl, (fun _ => rfl), (by decide)⟩
    · exact ⟨(fun _ h => nomatch h), rfl, (fun _ => rfl), (by decide)⟩

/-- tie A: syncNode / sendNodesRemote / sendNodesLocal have the shape the model transcribes (after the repair:
children are listed with deleted ones included; the undelete step is for the local root device only). -/
theorem gen_sync_pinned :
    Gen.syncNodeGetNodes = ["up.nc, parent, id, \"\", true", "up.ncRemote, parent, id, \"\", true",
      "up.ncLocal, nodeLocal.ID, \"all\", \"\", true", "up.ncRemote, nodeUp.ID, \"all\", \"\", true"] ∧
    Gen.syncNodeRec = ["nodeLocal.ID, child.ID"] ∧
    Gen.syncNodeSendRemote = ["nodeLocal", "child"] ∧ Gen.syncNodeSendLocal = ["upChild"] ∧
    Gen.syncNodePointSends = ["up.ncRemote, nodeUp.ID, p, true", "up.nc, nodeLocal.ID, pUp, true", "up.ncRemote, nodeUp.ID, p, true",
      "up.nc, nodeLocal.ID, pUp, true"] ∧
    Gen.syncNodeEdgePointSends = ["up.ncRemote, nodeUp.ID, nodeUp.Parent, pTS, true", "up.ncRemote, nodeUp.ID, nodeUp.Parent, p, true",
      "up.nc, nodeLocal.ID, nodeLocal.Parent, pUp, true", "up.ncRemote, nodeUp.ID, nodeUp.Parent, p, true",
      "up.nc, nodeLocal.ID, nodeLocal.Parent, pUp, true"] ∧
    Gen.syncNodeRanges = ["points", "nodeUps", "nodeUp.EdgePoints", "nodeLocal.EdgePoints", "nodeLocal.Points", "nodeUp.Points", "nodeUp.Points",
      "nodeLocal.EdgePoints", "nodeUp.EdgePoints", "nodeUp.EdgePoints", "children", "upChildren", "upChildren"] ∧
    Gen.sendRemoteCalls = ["up.ncRemote, node, up.config.ID", "up.nc, node.ID, \"all\", \"\", false"] ∧
    Gen.sendLocalCalls = ["up.ncLocal, node, up.config.ID", "up.nc, node.ID, \"all\", \"\", false"] ∧
    Gen.sendRemoteIfs = ["node.Parent == \"root\"", "err != nil", "err != nil", "err != nil"] ∧
    Gen.syncNodeIfs = ["up.rootRemote.ID == \"\"", "err != nil", "up.subRemoteUp == nil", "err != nil", "parent == \"root\"", "err != nil",
      "len(nodeLocals) == 0", "upErr != nil", "upErr != data.ErrDocumentNotFound", "nodeFound", "!ts",
      "nodeDeleted && nodeLocal.ID == up.rootLocal.ID", "err != nil", "!nodeFound", "err != nil", "err != nil",
      "nodeLocal.ID == up.rootLocal.ID", "nodeUp.Hash == nodeLocal.Hash", "nodeLocal.ID == up.rootLocal.ID", "err != nil",
      "p.IsMatch(pUp.Type, pUp.Key)", "p.Time.After(pUp.Time)", "err != nil", "p.Time.Before(pUp.Time)", "err != nil", "!found", "err != nil",
      "!ok", "err != nil", "nodeLocal.ID != up.rootLocal.ID", "p.IsMatch(pUp.Type, pUp.Key)", "p.Time.After(pUp.Time)", "err != nil",
      "p.Time.Before(pUp.Time)", "err != nil", "!found", "err != nil", "!ok", "err != nil", "err != nil", "err != nil",
      "child.ID == upChild.ID", "child.Hash != upChild.Hash", "err != nil", "!found", "err != nil", "err != nil", "!ok", "err != nil", "err != nil"] := by
  decide

end Siot.Sync

namespace Siot.SyncLoop

/-- **C02 (catch-up runs at every connection and periodically while the link is up).** Whatever the sequence of link
reports (connected / disconnected / reconnected), timer firings, local writes and configuration changes since the
client started: (1) the catch-up ticker runs, with the configured period (at least one second), exactly when the last
link report said "up" — so passes keep coming for as long as the link is up, and none are attempted while it is down;
(2) every report "up" is answered at once with a catch-up pass (this is what repairs the state after an outage), and
every ticker firing is a pass. -/
theorem c02_loop_catch_up_while_connected (disabled : Bool) (period : Nat) (evs : List Ev) :
    let s := (run (init disabled period) evs).1
    s.ticker = (if lastConn evs false then some s.period else none) ∧ 1 ≤ s.period ∧
    (∀ subOk, Act.pass ∈ (step s (.conn true subOk)).2) ∧ (step s .tick).2 = [Act.pass] := by
  intro s
  have hinv := inv_run evs _ (inv_init disabled period)
  have hc : s.connected = lastConn evs false := connected_run evs (init disabled period)
  refine ⟨by rw [← hc]; exact hinv.ticker, hinv.period, ?_, rfl⟩
  intro subOk
  show Act.pass ∈ (if s.initialSub = true then _ else _ : St × List Act).2
  by_cases hi : s.initialSub = true
  · simp only [hi, if_true]; exact List.mem_cons_self ..
  · simp only [hi, Bool.false_eq_true, if_false]; exact List.mem_cons_self ..

/-- **C02 (local writes are forwarded exactly while the link is up).** After any history, a local node-point or
edge-point message is sent on to the upstream exactly when the last link report said "up"; what is written while
the link is down is left to the next catch-up pass (`c02_loop_catch_up_while_connected`). -/
theorem c02_loop_forward_iff_connected (disabled : Bool) (period : Nat) (evs : List Ev) :
    let s := (run (init disabled period) evs).1
    (step s .localNode).2 = (if lastConn evs false then [Act.fwdNode] else []) ∧
    (step s .localEdge).2 = (if lastConn evs false then [Act.fwdEdge] else []) := by
  intro s
  have hc : s.connected = lastConn evs false := connected_run evs (init disabled period)
  exact ⟨by rw [← hc]; rfl, by rw [← hc]; rfl⟩

/-- **C02 (a reconnection is always pending).** After any history, a client that is not disabled has an upstream
connection object (the NATS library reconnects it by itself and reports through the callbacks) or an armed connect
timer: a failed dial re-arms the timer (30 s), a change of uri / token / disabled flag drops the connection and re-arms
it (10 ms). And after such a change the subscriptions to the upstream are set up again at the next connection. -/
theorem c02_loop_redial_pending (disabled : Bool) (period : Nat) (evs : List Ev) :
    let s := (run (init disabled period) evs).1
    (s.disabled = true ∨ s.remote = true ∨ s.connectTimer.isSome = true) ∧
    (∀ d subOk, Act.subInitial ∈ (step (step s (.cfgRestart d)).1 (.conn true subOk)).2) := by
  intro s
  exact ⟨(inv_run evs _ (inv_init disabled period)).redial, fun d subOk => by simp [step]⟩

/-- non-vacuity: connect, lose the link, get it back, while writes arrive -/
example :
    (run (init false 0) [.connectTimer true, .conn true true, .localNode, .conn false false, .localNode, .tick, .conn true true, .localEdge]).2 =
      [.dial, .pass, .subInitial, .fwdNode, .pass, .pass, .fwdEdge] := by decide

/-- tie A: the select loop of Run, `connect` and `disconnect` have the shape the model transcribes -/
theorem gen_syncloop_pinned :
    Gen.syncRunSelect = ["<-up.stop => ", "<-connectTimer.C => connect,connectTimer.Reset(30 * time.Second)", "<-syncTicker.C => syncNode",
      "conn := <-up.chConnected => syncTicker.Reset(time.Duration(up.config.Period) * time.Second),syncNode,subscribeRemoteNode,syncTicker.Stop",
      "pts := <-chLocalNodePoints => SendNodePoints", "pts := <-chLocalEdgePoints => SendEdgePoints",
      "pts := <-up.newPoints => disconnect,connectTimer.Reset(10 * time.Millisecond),checkPeriod,syncTicker.Reset(time.Duration(up.config.Period) * time.Second)",
      "pts := <-up.newEdgePoints => ", "edge := <-up.chNewEdge => sendNodesLocal,subscribeRemoteNode"] ∧
    Gen.syncRunIfs = ["err != nil", "err != nil", "err != nil", "err != nil", "err != nil", "p.Type == data.PointTypeTombstone && p.Value == 0",
      "err != nil", "up.config.Period < 1", "err != nil", "err != nil", "err != nil", "err != nil", "conn", "err != nil", "!up.initialSub",
      "err != nil", "connected", "err != nil", "connected", "err != nil", "err != nil", "connected", "up.config.SyncCountReset", "err != nil",
      "err != nil", "!edge.local", "edge.parent == up.rootRemote.ID", "err != nil", "len(nodes) > 0", "err != nil", "n.Type == \"\"", "err != nil",
      "err != nil", "err != nil", "err != nil"] ∧
    Gen.syncRunAssigns = ["up.config.Period = 20", "connected := false", "up.initialSub = false", "connected = conn", "up.initialSub = true",
      "up.rootRemote = data.NodeEdge{}"] ∧
    Gen.syncConnectSends = ["up.chConnected <- true", "up.chConnected <- false", "up.chConnected <- true"] ∧
    Gen.syncConnectIfs = ["up.config.Disabled", "err != nil"] ∧
    Gen.syncDisconnectAssigns = ["up.initialSub = false", "up.subRemoteUp = nil", "up.ncRemote = nil", "up.rootRemote = data.NodeEdge{}"] := by
  exact ⟨rfl, rfl, rfl, rfl, rfl, rfl⟩

end Siot.SyncLoop
