import Siot.Lemmas.Rule
import Siot.Props.C14
import Siot.Gen.Rule
/-
C13 — A rule is active exactly when all of its conditions hold.
Property theorems only; helper lemmas live in Siot/Lemmas/Rule.lean.
-/
namespace Siot.Rule
open Siot Siot.Schedule

/-! ### what a point says about a condition -/

/-- the filter of a point-value condition: node, key and type, each only when set -/
def Matches (c : Cond) (n : Bytes) (p : Pt) : Prop :=
  (c.nodeID = [] ∨ c.nodeID = n) ∧ (c.pointKey = [] ∨ c.pointKey = p.key) ∧ (c.pointType = [] ∨ c.pointType = p.type)

/-- **C13 point conditions.** A point-value condition is evaluated by exactly the points that pass its
node / key / type filter, and the verdict is the configured comparison: `>`,`<`,`=`,`!=` on numbers
(IEEE order, NaN compares false except `!=`), equality of "non-zero" for on/off, `=`,`!=`,`contains` on text. -/
theorem c13_point_verdict (c : Cond) (n : Bytes) (p : Pt) (hc : c.ctype = sPointValue) :
    (¬ Matches c n p → verdict c n p = none) ∧
    (Matches c n p →
      (c.valueType = sNumber → verdict c n p = some (numCmp c.operator p.value c.value)) ∧
      (c.valueType = sText → verdict c n p = some (textCmp c.operator p.text c.valueText)) ∧
      (c.valueType = sOnOff → verdict c n p = some (fnz c.value == fnz p.value))) := by
  unfold Matches verdict evalCond
  simp only [hc, if_true]
  constructor
  · intro h
    by_cases h1 : c.nodeID ≠ [] ∧ c.nodeID ≠ n
    · simp [h1]
    · by_cases h2 : c.pointKey ≠ [] ∧ c.pointKey ≠ p.key
      · simp [h1, h2]
      · by_cases h3 : c.pointType ≠ [] ∧ c.pointType ≠ p.type
        · simp [h1, h2, h3]
        · exfalso; apply h
          refine ⟨?_, ?_, ?_⟩
          · by_cases e : c.nodeID = []
            · exact Or.inl e
            · by_cases e2 : c.nodeID = n
              · exact Or.inr e2
              · exact absurd ⟨e, e2⟩ h1
          · by_cases e : c.pointKey = []
            · exact Or.inl e
            · by_cases e2 : c.pointKey = p.key
              · exact Or.inr e2
              · exact absurd ⟨e, e2⟩ h2
          · by_cases e : c.pointType = []
            · exact Or.inl e
            · by_cases e2 : c.pointType = p.type
              · exact Or.inr e2
              · exact absurd ⟨e, e2⟩ h3
  · rintro ⟨h1, h2, h3⟩
    have n1 : ¬ (c.nodeID ≠ [] ∧ c.nodeID ≠ n) := by rintro ⟨a, b⟩; rcases h1 with h | h <;> contradiction
    have n2 : ¬ (c.pointKey ≠ [] ∧ c.pointKey ≠ p.key) := by rintro ⟨a, b⟩; rcases h2 with h | h <;> contradiction
    have n3 : ¬ (c.pointType ≠ [] ∧ c.pointType ≠ p.type) := by rintro ⟨a, b⟩; rcases h3 with h | h <;> contradiction
    simp only [n1, n2, n3, if_false]
    refine ⟨?_, ?_, ?_⟩
    · intro hv; simp [hv]
    · intro hv
      have : sText ≠ sNumber := by decide
      simp [hv, this]
    · intro hv
      have h1 : sOnOff ≠ sNumber := by decide
      have h2 : sOnOff ≠ sText := by decide
      simp [hv, h1, h2]

/-- the four numeric operators and three text operators are what they say -/
theorem c13_operators (pv cv : Nat) (pt ct : Bytes) :
    numCmp sGT pv cv = fgt pv cv ∧ numCmp sLT pv cv = flt pv cv ∧ numCmp sEQ pv cv = feq pv cv ∧
    numCmp sNE pv cv = !feq pv cv ∧
    (textCmp sEQ pt ct = true ↔ pt = ct) ∧ (textCmp sNE pt ct = true ↔ pt ≠ ct) ∧
    textCmp sContains pt ct = isInfix ct pt := by
  have a1 : sLT ≠ sGT := by decide
  have a2 : sEQ ≠ sGT := by decide
  have a3 : sEQ ≠ sLT := by decide
  have a4 : sNE ≠ sGT := by decide
  have a5 : sNE ≠ sLT := by decide
  have a6 : sNE ≠ sEQ := by decide
  have a7 : sContains ≠ sEQ := by decide
  have a8 : sContains ≠ sNE := by decide
  refine ⟨by simp [numCmp], by simp [numCmp, a1], by simp [numCmp, a2, a3], by simp [numCmp, a4, a5, a6, fne],
    by simp [textCmp], by simp [textCmp, a6], by simp [textCmp, a7, a8]⟩

/-- `isInfix` is substring containment: `needle` occurs in `hay` iff `hay = pre ++ needle ++ post` -/
theorem c13_contains_iff (needle hay : Bytes) : isInfix needle hay = true ↔ ∃ pre post, hay = pre ++ needle ++ post := by
  induction hay with
  | nil =>
    cases needle with
    | nil => simp [isInfix]
    | cons a as =>
      simp only [isInfix, Bool.false_eq_true, false_iff]
      rintro ⟨pre, post, h⟩
      have := congrArg List.length h
      simp at this
  | cons x xs ih =>
    cases needle with
    | nil => simp only [isInfix, true_iff]; exact ⟨[], x :: xs, rfl⟩
    | cons a as =>
      simp only [isInfix, Bool.or_eq_true, ih]
      constructor
      · rintro (h | ⟨pre, post, h⟩)
        · obtain ⟨t, ht⟩ := List.isPrefixOf_iff_prefix.mp h
          exact ⟨[], t, by simp [← ht]⟩
        · exact ⟨x :: pre, post, by simp [h]⟩
      · rintro ⟨pre, post, h⟩
        cases pre with
        | nil =>
          left
          apply List.isPrefixOf_iff_prefix.mpr
          exact ⟨post, by simpa using h.symm⟩
        | cons y ys =>
          right
          simp only [List.cons_append, List.cons.injEq] at h
          exact ⟨ys, post, h.2⟩

/-- the float order used by `numCmp`: on non-NaN values exactly one of `<`, `=`, `>` holds;
    a NaN on either side makes all three false (and `!=` true) -/
theorem c13_float_trichotomy (a b : Nat) :
    (fNaN a = false → fNaN b = false →
      (flt a b = true ∧ feq a b = false ∧ fgt a b = false) ∨ (flt a b = false ∧ feq a b = true ∧ fgt a b = false) ∨
      (flt a b = false ∧ feq a b = false ∧ fgt a b = true)) ∧
    ((fNaN a = true ∨ fNaN b = true) → flt a b = false ∧ feq a b = false ∧ fgt a b = false ∧ fne a b = true) := by
  constructor
  · intro ha hb
    simp only [flt, feq, fgt, ha, hb, Bool.not_false, Bool.true_and, decide_eq_true_eq, beq_iff_eq,
      decide_eq_false_iff_not, beq_eq_false_iff_ne]
    omega
  · rintro (h | h) <;> simp [flt, feq, fgt, fne, h]

/-- **C13 schedule conditions.** A schedule condition is evaluated by trigger points only, and for a
schedule that parses the verdict at a trigger is `true` exactly when the trigger time lies in the window
of SOME allowed calendar day (the C14 specification). -/
theorem c13_schedule_verdict (c : Cond) (n : Bytes) (p : Pt) (hc : c.ctype = sSchedule) :
    (p.type ≠ sTrigger → verdict c n p = none) ∧
    (p.type = sTrigger → ∀ sh sm eh em, parseHM c.start = some (sh, sm) → parseHM c.stop = some (eh, em) →
      sh < 24 → sm < 60 → eh < 24 → em < 60 → (∀ d ∈ c.dates, parseDate d ≠ none) →
      ∃ b, verdict c n p = some b ∧ (b = true ↔ window (weekdayList c.weekdays) c.dates sh sm eh em p.time)) := by
  have hne : sSchedule ≠ sPointValue := by decide
  unfold verdict evalCond
  simp only [hc, hne, if_false, if_true]
  constructor
  · intro h; simp [h]
  · intro h sh sm eh em hs he h1 h2 h3 h4 hd
    obtain ⟨b, hb, hiff⟩ := c14_exact ⟨c.start, c.stop, weekdayList c.weekdays, c.dates⟩ p.time sh sm eh em hs he h1 h2 h3 h4 hd
    refine ⟨b, ?_, hiff⟩
    simp [h, hb]

/-! ### after a batch -/

/-- **C13 (latest matching point decides).** After the rule has processed a non-empty batch from node
`n`, every condition's `active` is the verdict of the LAST point of the batch that is evaluated for it
(for point conditions: the last point passing the filter), and is unchanged when no point of the batch is;
conditions are otherwise untouched (same order, same filters and thresholds). -/
theorem c13_condition_latest (r : Rule) (n : Bytes) (pts : List Pt) (now : Int) (hne : pts ≠ []) :
    (runBatch r n pts now).1.conds = r.conds.map (condAfter n pts) ∧
    ∀ c ∈ r.conds, (condAfter n pts c).active =
      match (pts.filter (fun p => (verdict c n p).isSome)).getLast? with
      | some p => (verdict c n p).getD c.active
      | none => c.active := by
  refine ⟨?_, fun c _ => condAfter_active n pts c⟩
  rw [runBatch_nonempty r n pts now hne]
  obtain ⟨_, h2, _⟩ := ruleProcessPoints_spec r n pts
  split
  · obtain ⟨_, _, f3, _⟩ := fire_spec (ruleProcessPoints r n pts).rule (ruleProcessPoints r n pts).active
    simp only
    rw [f3, h2]
  · exact h2

/-- the same across batches: over any sequence of deliveries (node, point), in the order the rule
processed them, a condition's `active` is the verdict of the last delivery evaluated for it -/
theorem c13_condition_latest_history (l : List (Bytes × Pt)) (c : Cond) :
    (condAfterL l c).active =
      match (l.filter (fun x => (verdict c x.1 x.2).isSome)).getLast? with
      | some x => (verdict c x.1 x.2).getD c.active
      | none => c.active := condAfterL_active l c

/-- the deliveries of an event sequence made of non-empty batches and ticks -/
def deliveries (rid : Bytes) : List Event → List (Bytes × Pt)
  | [] => []
  | .batch n pts _ :: es => pts.map (fun p => (n, p)) ++ deliveries rid es
  | .tick now :: es => (rid, ⟨sTrigger, [], 0, [], now⟩) :: deliveries rid es
  | _ :: es => deliveries rid es

def PointEvents : List Event → Prop
  | [] => True
  | .batch _ pts _ :: es => pts ≠ [] ∧ PointEvents es
  | .tick _ :: es => PointEvents es
  | _ :: _ => False

theorem step_id (r : Rule) (e : Event) : (step r e).1.id = r.id := by
  have key : ∀ (r : Rule) (n : Bytes) (pts : List Pt) (now : Int), (runBatch r n pts now).1.id = r.id := by
    intro r n pts now
    by_cases hne : pts = []
    · subst hne
      rw [runBatch_empty]
      exact (fire_spec _ _).1.trans (ruleProcessPoints_spec r r.id _).1
    · rw [runBatch_nonempty r n pts now hne]
      split
      · exact (fire_spec _ _).1.trans (ruleProcessPoints_spec r n pts).1
      · exact (ruleProcessPoints_spec r n pts).1
  cases e with
  | batch n pts now => exact key r n pts now
  | tick now => exact key r r.id _ now
  | setCondValue i v now => exact key _ [] [] now
  | setActValue w i v now =>
    refine (key _ [] [] now).trans ?_
    cases w <;> rfl

/-- **C13 over histories.** For every rule and every sequence of non-empty batches and schedule ticks,
the conditions after the sequence are the initial ones updated by all deliveries in order — so by
`c13_condition_latest_history` each is decided by the last delivery evaluated for it. -/
theorem c13_history (es : List Event) : ∀ (r : Rule), PointEvents es →
    (runEvents r es).1.conds = r.conds.map (condAfterL (deliveries r.id es)) := by
  induction es with
  | nil =>
    intro r _
    have : condAfterL ([] : List (Bytes × Pt)) = id := rfl
    simp [runEvents, deliveries, this]
  | cons e es ih =>
    intro r hp
    simp only [runEvents]
    cases e with
    | batch n pts now =>
      obtain ⟨hne, hrest⟩ := hp
      have h1 := (c13_condition_latest r n pts now hne).1
      have hid := step_id r (.batch n pts now)
      simp only [step] at hid ⊢
      rw [ih _ hrest, h1, hid]
      simp only [deliveries, List.map_map]
      apply List.map_congr_left
      intro c _
      simp [condAfterL_append, condAfter_eq]
    | tick now =>
      have h1 := (c13_condition_latest r r.id [⟨sTrigger, [], 0, [], now⟩] now (by simp)).1
      have hid := step_id r (.tick now)
      simp only [step] at hid ⊢
      rw [ih _ hp, h1, hid]
      simp only [deliveries, List.map_map]
      apply List.map_congr_left
      intro c _
      have : ((r.id, (⟨sTrigger, [], 0, [], now⟩ : Pt)) :: deliveries r.id es) = [(r.id, ⟨sTrigger, [], 0, [], now⟩)] ++ deliveries r.id es := rfl
      rw [Function.comp_apply, this, condAfterL_append, condAfter_eq]
      rfl
    | setCondValue i v now => exact absurd hp id
    | setActValue w i v now => exact absurd hp id

/-- **C13 (rule = conjunction).** After EVERY event (batch, tick, configuration change) the rule is
active exactly when all of its conditions are; a rule without conditions is active. -/
theorem c13_rule_active_iff_all (r : Rule) (e : Event) :
    (step r e).1.active = (step r e).1.conds.all (·.active) := by
  have key : ∀ (r : Rule) (n : Bytes) (pts : List Pt) (now : Int),
      (runBatch r n pts now).1.active = (runBatch r n pts now).1.conds.all (·.active) := by
    intro r n pts now
    by_cases hne : pts = []
    · subst hne
      rw [runBatch_empty]
      obtain ⟨_, f2, f3, _⟩ := fire_spec (ruleProcessPoints r r.id [⟨sTrigger, [], 0, [], now⟩]).rule
        (ruleProcessPoints r r.id [⟨sTrigger, [], 0, [], now⟩]).active
      simp only
      rw [f2, f3]
      exact (ruleProcessPoints_spec r r.id _).2.2.2.2.1
    · rw [runBatch_nonempty r n pts now hne]
      split
      · obtain ⟨_, f2, f3, _⟩ := fire_spec (ruleProcessPoints r n pts).rule (ruleProcessPoints r n pts).active
        simp only
        rw [f2, f3]
        exact (ruleProcessPoints_spec r n pts).2.2.2.2.1
      · exact (ruleProcessPoints_spec r n pts).2.2.2.2.1
  cases e <;> exact key ..

/-! ### actions on a change of state -/

/-- **C13 (actions run once per change).** For a non-empty batch:
* if the rule's state does not change, nothing but bookkeeping (`active` / `error` points of conditions
  and of the rule) is published and no action is touched;
* if it changes to `s`, every publication `o` that is not bookkeeping occurs exactly as often as it is
  the payload of an action of the list for `s` (actions when `s` is active, inactive-actions otherwise)
  — each action of that list runs once, none of the other list runs —, every action of that list ends
  up marked active, and every action of the opposite list is marked inactive and told so. -/
theorem c13_actions_once_per_change (r : Rule) (n : Bytes) (pts : List Pt) (now : Int) (hne : pts ≠ []) :
    let r' := (runBatch r n pts now).1
    let outs := (runBatch r n pts now).2
    (r'.active = r.active → (∀ o ∈ outs, Book o) ∧ r'.acts = r.acts ∧ r'.actsInactive = r.actsInactive) ∧
    (r'.active ≠ r.active →
      let w := firedList r'.active
      (∀ o, ¬ Book o → outs.count o = ((getActs r w).flatMap (payload r.id)).count o) ∧
      (∀ a ∈ getActs r' w, a.active = true) ∧
      (∀ a ∈ getActs r' (other w), a.active = false) ∧
      (∀ a ∈ getActs r (other w), send r.id a.id sActive (b2f false) [] [] ∈ outs)) := by
  intro r' outs
  obtain ⟨pid, pconds, pacts, pactsI, pall, pact, pch, pouts⟩ := ruleProcessPoints_spec r n pts
  have hrb := runBatch_nonempty r n pts now hne
  cases hc : (ruleProcessPoints r n pts).changed with
  | false =>
    have hsame : (ruleProcessPoints r n pts).rule.active = r.active := by
      by_cases h : (ruleProcessPoints r n pts).rule.active = r.active
      · exact h
      · have := pch.mpr h
        rw [hc] at this
        exact absurd this (by simp)
    have e1 : r' = (ruleProcessPoints r n pts).rule := by simp [r', hrb, hc]
    have e2 : outs = (ruleProcessPoints r n pts).outs := by simp [outs, hrb, hc]
    refine ⟨fun _ => ⟨by rw [e2]; exact pouts, by rw [e1]; exact pacts, by rw [e1]; exact pactsI⟩, ?_⟩
    intro h
    rw [e1] at h
    exact absurd hsame h
  | true =>
    have hdiff : (ruleProcessPoints r n pts).rule.active ≠ r.active := pch.mp hc
    obtain ⟨fid, fact, fconds, ffired, fother, o1, hsegs, houts⟩ :=
      fire_spec (ruleProcessPoints r n pts).rule (ruleProcessPoints r n pts).active
    have e1 : r' = (fire (ruleProcessPoints r n pts).rule (ruleProcessPoints r n pts).active).1 := by simp [r', hrb, hc]
    have e2 : outs = (ruleProcessPoints r n pts).outs ++
        (fire (ruleProcessPoints r n pts).rule (ruleProcessPoints r n pts).active).2 := by simp [outs, hrb, hc]
    have hact : r'.active = (ruleProcessPoints r n pts).rule.active := by rw [e1]; exact fact
    refine ⟨fun h => absurd (hact ▸ h) hdiff, ?_⟩
    intro _ w
    have hw : w = firedList (ruleProcessPoints r n pts).active := by simp only [w]; rw [hact, pact]
    have hget : ∀ w', getActs (ruleProcessPoints r n pts).rule w' = getActs r w' := by
      intro w'; cases w'
      · exact pacts
      · exact pactsI
    rw [hget, pid] at ffired hsegs houts
    rw [hget] at fother
    rw [← hw] at ffired fother hsegs houts
    refine ⟨?_, ?_, ?_, ?_⟩
    · intro o hb
      rw [e2, houts]
      simp only [List.count_append]
      have z1 : (ruleProcessPoints r n pts).outs.count o = 0 := by
        rw [List.count_eq_zero]; intro hm; exact hb (pouts o hm)
      have z2 : ((getActs r (other w)).map (fun a => send r.id a.id sActive (b2f false) [] [])).count o = 0 := by
        rw [List.count_eq_zero]
        intro hm
        simp only [List.mem_map] at hm
        obtain ⟨a, _, ha⟩ := hm
        apply hb; left; rw [← ha]; simp
      rw [z1, z2, Segs_count r.id _ _ hsegs o hb]
      omega
    · intro a ha
      rw [e1, ffired] at ha
      simp only [List.mem_map] at ha
      obtain ⟨a0, _, rfl⟩ := ha
      unfold updAct
      split <;> rfl
    · intro a ha
      rw [e1, fother] at ha
      simp only [List.mem_map] at ha
      obtain ⟨a0, _, rfl⟩ := ha
      rfl
    · intro a ha
      rw [e2, houts]
      simp only [List.mem_append, List.mem_map]
      right; right
      exact ⟨a, ha, rfl⟩

/-- **C13 (set-value payload).** A well-formed set-value action publishes exactly one point: the
configured type, value and text on the target node — with the RULE as origin whenever the target is not
the rule's own node; a malformed or unknown action, and a play-audio action whose file cannot be opened (an action
error after the repair; it used to end the process with log.Fatal), publishes nothing. -/
theorem c13_setvalue_payload (rid : Bytes) (a : Act) :
    (a.action = sSetValue → a.nodeID ≠ [] → a.pointType ≠ [] →
      payload rid a = [send rid a.nodeID a.pointType a.value a.valueText a.id] ∧
      (a.nodeID ≠ rid → payload rid a = [⟨a.nodeID, a.pointType, a.value, a.valueText, rid⟩])) ∧
    ((a.action ≠ sSetValue ∨ a.nodeID = [] ∨ a.pointType = []) → payload rid a = []) := by
  unfold payload actEval
  constructor
  · intro h1 h2 h3
    simp only [h1, h2, h3, if_true, if_false, true_and]
    intro h
    simp [send, h]
  · rintro (h | h | h)
    · simp only [h, if_false]; split <;> rfl
    · by_cases ha : a.action = sSetValue
      · simp [ha, h]
      · simp only [ha, if_false]; split <;> rfl
    · by_cases ha : a.action = sSetValue
      · by_cases hn : a.nodeID = [] <;> simp [ha, hn, h]
      · simp only [ha, if_false]; split <;> rfl

/-! ### non-vacuity: a concrete rule going through both transitions -/

def exCond : Cond := {
  id := [99], ctype := sPointValue, nodeID := [110], pointType := [118], pointKey := [], valueType := sNumber,
  operator := sGT, value := 4617315517961601024, valueText := [], start := [], stop := [], weekdays := [], dates := [],
  active := false, error := [] }
def exAct : Act := {
  id := [97], action := sSetValue, nodeID := [116], pointType := [118], value := 4607182418800017408,
  valueText := [], active := false, error := [] }
def exRule : Rule := { id := [114], active := false, error := [], conds := [exCond], acts := [exAct], actsInactive := [] }

/-- value 10 (> 5) from the watched node: condition and rule become active, the action fires once -/
example : (runBatch exRule [110] [⟨[118], [], 4621819117588971520, [], 0⟩] 0).2 =
    [⟨[99], sActive, b2f true, [], [114]⟩, ⟨[114], sActive, b2f true, [], []⟩,
     ⟨[116], [118], 4607182418800017408, [], [114]⟩, ⟨[97], sActive, b2f true, [], [114]⟩] := by decide +kernel

/-- the same value from another node is ignored -/
example : (runBatch exRule [111] [⟨[118], [], 4621819117588971520, [], 0⟩] 0).2 = [] := by decide +kernel

/-! ### tie A -/

/-- the comparisons, case labels, filters, loop structure and the `run` closure of client/rule.go
have the shape the model transcribes, and the schema constants are the model's strings -/
theorem gen_rule_pinned :
    Gen.processActiveAssigns = ["p.Value > c.Value", "p.Value < c.Value", "p.Value == c.Value", "p.Value != c.Value",
      "p.Text == c.ValueText", "p.Text != c.ValueText", "strings.Contains(p.Text, c.ValueText)", "condValue == pointValue",
      "sched.activeForTime(p.Time)"] ∧
    Gen.processCases = ["data.PointValuePointValue", "data.PointValueNumber", "data.PointValueGreaterThan", "data.PointValueLessThan",
      "data.PointValueEqual", "data.PointValueNotEqual", "data.PointValueText", "data.PointValueEqual", "data.PointValueNotEqual",
      "data.PointValueContains", "data.PointValueOnOff", "default", "data.PointValueSchedule"] ∧
    Gen.processIfs = ["c.Error != errS", "err != nil", "c.NodeID != \"\" && c.NodeID != nodeID", "c.PointKey != \"\" && c.PointKey != p.Key",
      "c.PointType != \"\" && c.PointType != p.Type", "p.Type != data.PointTypeTrigger", "v", "err != nil", "active != c.Active", "err != nil",
      "!errorActive && c.Error != \"\"", "err != nil", "!c.Active", "allActive != rc.config.Active", "err != nil"] ∧
    Gen.processRanges = ["points", "rc.config.Conditions", "c.Weekdays", "rc.config.Conditions"] ∧
    Gen.actionsCases = ["data.PointValueSetValue", "data.PointValueNotify", "data.PointValuePlayAudio", "default"] ∧
    Gen.actionsIfs = ["a.Error != errS", "err != nil", "a.NodeID == \"\"", "a.PointType == \"\"", "err != nil", "err != nil", "len(nodes) < 1",
      "err != nil", "err != nil", "err != nil", "format.SampleRate < 8000", "err != nil", "err != nil", "!errorActive && a.Error != \"\"", "err != nil"] ∧
    Gen.actionsSends = ["a.ID, p", "a.NodeID, p", "a.ID, p", "a.ID, p"] ∧
    Gen.inactiveSends = ["a.ID, p"] ∧
    Gen.sendPointIfs = ["id != rc.config.ID"] ∧ Gen.sendPointOrigin = ["rc.config.ID"] ∧
    Gen.runIfs = ["err != nil", "len(chunks) != 3", "err != nil", "!rc.hasSchedule()", "len(pts) > 0", "err != nil", "!changed", "err != nil",
      "active", "err != nil", "err != nil", "err != nil", "err != nil", "err != nil", "rc.hasSchedule()", "err != nil"] ∧
    Gen.runProcess = ["id, pts", "rc.config.ID, data.Points{{ Time: time.Now(), Type: data.PointTypeTrigger, }}"] ∧
    Gen.runRunActions = ["rc.config.Actions, id", "rc.config.ActionsInactive, id"] ∧
    Gen.runInactiveActions = ["rc.config.ActionsInactive", "rc.config.Actions"] ∧
    Gen.runCalls = ["pts.ID, pts.Points", "rc.config.ID, data.Points{{ Time: time.Now(), Type: data.PointTypeTrigger, }}", "\"\", nil", "\"\", nil"] ∧
    Gen.processErrorIfs = ["errS != \"\"", "errS != rc.config.Error", "err != nil", "c.Error != \"\"", "a.Error != \"\"", "a.Error != \"\"",
      "found != rc.config.Error", "err != nil"] := by
  decide

theorem gen_rule_constants_pinned :
    strBytes Gen.sPointValuePointValue = sPointValue ∧ strBytes Gen.sPointValueSchedule = sSchedule ∧
    strBytes Gen.sPointValueNumber = sNumber ∧ strBytes Gen.sPointValueOnOff = sOnOff ∧ strBytes Gen.sPointValueText = sText ∧
    strBytes Gen.sPointValueGreaterThan = sGT ∧ strBytes Gen.sPointValueLessThan = sLT ∧ strBytes Gen.sPointValueEqual = sEQ ∧
    strBytes Gen.sPointValueNotEqual = sNE ∧ strBytes Gen.sPointValueContains = sContains ∧
    strBytes Gen.sPointTypeTrigger = sTrigger ∧ strBytes Gen.sPointTypeActive = sActive ∧ strBytes Gen.sPointTypeError = sError ∧
    strBytes Gen.sPointValueSetValue = sSetValue := by
  decide +kernel

end Siot.Rule
