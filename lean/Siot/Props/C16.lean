import Siot.Lemmas.CobsStream
import Siot.Gen.Cobs
/-
C16 — COBS framing delivers each frame intact for any read chunking.
Property theorems only; lemmas are in Siot/Lemmas/Cobs*.lean.
Model: Siot/Model/Cobs.lean (cobsEncode, cobsDecodeInplace, CobsWrapper.Read).
-/
namespace Siot.Cobs
open Siot

/-- Tie A: thresholds and comparison operators of the encoder and decoder as they are in
client/cobs-wrapper.go right now (block size 254 with `>=`, code 0xff without implied zero,
minimum length 3). -/
theorem gen_cobsEncode_pinned : Gen.cobsEncodeCmps = [">=254"] := rfl
theorem gen_cobsDecode_pinned : Gen.cobsDecodeCmps = ["<=2", "==0", "==0", "!=255", "==0"] := rfl

/-- **C16 codec round trip.** For EVERY frame `f` (any length, any content, including the empty
frame, frames with 254-byte zero-free runs followed by a zero, …) decoding what `Write` puts on
the wire gives back exactly `f`. -/
theorem c16_codec_roundtrip (f : Bytes) : decodeInplace (wire f) = .ok f := by
  have hlen : ¬ (wire f).length ≤ 2 := by
    obtain ⟨c, t, h, _⟩ := blocks_head f
    simp [wire, encode_eq, h]
  rw [decodeInplace, if_neg hlen, wire, encode_eq]
  exact decStart_blocks f

/-- a frame fits the reader's limits (`len(b)` and `maxMessageLength`) -/
def Fits (cfg : Cfg) (f : Bytes) : Prop :=
  (encode f).length + 1 ≤ cfg.bufLen ∧ (encode f).length ≤ cfg.maxLen + 1

theorem outFor_blocks (cfg : Cfg) (f : Bytes) (h : Fits cfg f) :
    outFor cfg (blocks f) = .frame (.ok f) := by
  unfold outFor
  have : ¬ (0 :: (blocks f ++ [0])).length > cfg.bufLen := by
    have := h.1; rw [encode_eq] at this; simp at this ⊢; omega
  rw [if_neg this]
  have := c16_codec_roundtrip f
  rw [wire, encode_eq] at this
  rw [this]

/-- **C16 (main): any chunking.** For every list of frames that fit the limits, and EVERY way of
cutting the byte stream written for them into a leftover buffer and a list of device reads (any cut
positions, empty reads allowed, any number of reads), successive `Read` calls return exactly the
frames that were written, intact, in order, each once — and then the device's error. -/
theorem c16_any_chunking (cfg : Cfg) (fs : List Bytes) (hfit : ∀ f ∈ fs, Fits cfg f)
    (hbuf : 0 < cfg.bufLen)
    (cs : List Bytes) (lo : Bytes) (hcs : lo ++ cs.flatten = stream fs) (fuel : Nat) (hfuel : fs.length < fuel) :
    readAll cfg fuel lo cs = fs.map (fun f => .frame (.ok f)) ++ [.devErr] := by
  have hb := bodiesOf_stream fs
  have := readAll_char cfg (stream fs).length (stream fs) (Nat.le_refl _)
    (by
      rw [hb]; intro g hg
      simp only [List.mem_map] at hg
      obtain ⟨f, hf, rfl⟩ := hg
      have := hfit f hf
      unfold Fits at this; rw [encode_eq] at this; simp at this; omega)
    (by rw [hb]; simp; omega)
    cs lo hcs fuel (by rw [hb]; simpa using hfuel)
  rw [this, hb]
  simp only [List.map_map]
  congr 1
  apply List.map_congr_left
  intro f hf
  exact outFor_blocks cfg f (hfit f hf)

/-- **C16 resynchronisation.** Let the stream be: arbitrary non-delimiter garbage `junk` (a damaged
frame: bytes flipped, lost or inserted — anything without a zero, within the length limit), the next
delimiter, then the frames `fs` as written. Whatever the chunking, the garbage costs exactly ONE
result (an error or a garbage frame — `outFor cfg junk`), and every frame that begins after the
delimiter is delivered intact, in order, each once. -/
theorem c16_resync (cfg : Cfg) (junk : Bytes) (hj : ZF junk) (hne : junk ≠ [])
    (hjl : junk.length < cfg.bufLen ∧ junk.length ≤ cfg.maxLen)
    (fs : List Bytes) (hfit : ∀ f ∈ fs, Fits cfg f)
    (cs : List Bytes) (lo : Bytes) (hcs : lo ++ cs.flatten = junk ++ 0 :: stream fs)
    (fuel : Nat) (hfuel : fs.length + 1 < fuel) :
    readAll cfg fuel lo cs = outFor cfg junk :: (fs.map (fun f => .frame (.ok f)) ++ [.devErr]) := by
  have hb : bodiesOf (junk ++ 0 :: stream fs) = (junk :: fs.map blocks, []) := by
    rw [bodiesOf_junk junk _ hj hne, bodiesOf_stream]
  have := readAll_char cfg _ (junk ++ 0 :: stream fs) (Nat.le_refl _)
    (by
      rw [hb]; intro g hg
      simp only [List.mem_cons, List.mem_map] at hg
      rcases hg with rfl | ⟨f, hf, rfl⟩
      · exact hjl
      · have := hfit f hf
        unfold Fits at this; rw [encode_eq] at this; simp at this; omega)
    (by rw [hb]; simp; omega)
    cs lo hcs fuel (by rw [hb]; simpa using hfuel)
  rw [this, hb]
  simp only [List.map_cons, List.map_map, List.cons_append]
  congr 2
  apply List.map_congr_left
  intro f hf
  exact outFor_blocks cfg f (hfit f hf)

/-- **C16 reader characterisation** (re-exported): on ANY byte stream within the limits, cut in ANY
way, the reader returns exactly one result per non-empty zero-delimited body, in order. Damage
therefore only affects the bodies it touches. -/
theorem c16_reader_char (cfg : Cfg) (S : Bytes)
    (hb : ∀ f ∈ (bodiesOf S).1, f.length < cfg.bufLen ∧ f.length ≤ cfg.maxLen)
    (hr : (bodiesOf S).2.length < cfg.bufLen ∧ (bodiesOf S).2.length ≤ cfg.maxLen)
    (cs : List Bytes) (lo : Bytes) (hS : lo ++ cs.flatten = S) (fuel : Nat)
    (hf : (bodiesOf S).1.length < fuel) :
    readAll cfg fuel lo cs = (bodiesOf S).1.map (outFor cfg) ++ [.devErr] :=
  readAll_char cfg S.length S (Nat.le_refl _) hb hr cs lo hS fuel hf

/-- non-vacuity: two frames, the second split across three device reads, cut inside the first;
    the hypotheses of `c16_any_chunking` hold for them and the concrete run agrees. -/
example : readAll ⟨16, 16⟩ 5 [] [[0, 4, 1], [2, 3, 0, 0, 3, 4], [5, 2], [6, 0]] =
      [.frame (.ok [1, 2, 3]), .frame (.ok [4, 5, 0, 6]), .devErr] := by
  decide

example : Fits ⟨16, 16⟩ [1, 2, 3] ∧ Fits ⟨16, 16⟩ [4, 5, 0, 6] ∧
    [0, 4, 1] ++ [[2, 3, 0, 0, 3, 4], [5, 2], [6, 0]].flatten = stream [[1, 2, 3], [4, 5, 0, 6]] := by
  simp [Fits, stream, wire, encode, splitZ, encodeRuns, encRun]

end Siot.Cobs
