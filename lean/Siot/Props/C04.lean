import Siot.Model.Crash
import Siot.Lemmas.Sync
import Siot.Gen.Tx
/-
C04 — A crash at any instant loses no acknowledged write and corrupts nothing.
The atomicity of one SQLite transaction is the parameter (see Siot/Model/Crash.lean); the theorems say what
follows for EVERY write history, EVERY number of acknowledged batches and BOTH fates of the batch in flight.
-/
namespace Siot.Crash
open Siot Siot.Store Siot.Sync

theorem run_inv : ∀ (ops : List WOp) (st : St), Inv st → Inv (run st ops) := by
  intro ops
  induction ops with
  | nil => intro st h; exact h
  | cons op ops ih => intro st h; exact ih _ (c03_step_preserves st op h)

theorem run_le : ∀ (ops : List WOp) (st : St), Inv st → StLe st (run st ops) := by
  intro ops
  induction ops with
  | nil => intro st _; exact StLe.refl _
  | cons op ops ih =>
    intro st h
    exact (step_le st h op).trans (ih _ (c03_step_preserves st op h))

theorem run_append (a b : List WOp) (st : St) : run st (a ++ b) = run (run st a) b := by
  induction a generalizing st with
  | nil => rfl
  | cons op a ih => simp only [List.cons_append, run]; exact ih _

/-- **C04 (nothing is corrupted).** Whatever was written, however many batches had been acknowledged, and
whether or not the batch in flight made it: the recovered store satisfies the store invariants — one row
per point identity, every edge hash equal to the Merkle hash of the content (points and hashes are never
out of step), acyclic. -/
theorem c04_recovered_consistent (st0 : St) (h0 : Inv st0) (ops : List WOp) (acked : Nat) (c : Bool) :
    Inv (recovered st0 ops acked c) ∧ hashInv (recovered st0 ops acked c) = true := by
  have := run_inv (ops.take (acked + if c then 1 else 0)) st0 h0
  exact ⟨this, c03_verify_clean _ this⟩

/-- **C04 (each batch completely or not at all).** The recovered store is the store after exactly `acked`
batches or after exactly `acked + 1` batches — never anything in between. -/
theorem c04_all_or_nothing (st0 : St) (ops : List WOp) (acked : Nat) (c : Bool) :
    recovered st0 ops acked c = run st0 (ops.take acked) ∨ recovered st0 ops acked c = run st0 (ops.take (acked + 1)) := by
  cases c
  · left; simp [recovered]
  · right; simp [recovered]

/-- **C04 (no acknowledged write is lost).** For every acknowledged batch `i < acked`, everything the store
held right after that batch is still there in the recovered store, or has been superseded by a newer-or-equal
point of the same identity written by a later batch. -/
theorem c04_acked_not_lost (st0 : St) (h0 : Inv st0) (ops : List WOp) (acked : Nat) (c : Bool) (i : Nat) (hi : i < acked) :
    StLe (run st0 (ops.take (i + 1))) (recovered st0 ops acked c) := by
  unfold recovered
  have hle : i + 1 ≤ acked + if c then 1 else 0 := by split <;> omega
  have hsplit : ops.take (acked + if c then 1 else 0) = ops.take (i + 1) ++ (ops.take (acked + if c then 1 else 0)).drop (i + 1) := by
    have := List.take_append_drop (i + 1) (ops.take (acked + if c then 1 else 0))
    rw [List.take_take, Nat.min_eq_left hle] at this
    exact this.symm
  rw [hsplit, run_append]
  exact run_le _ _ (run_inv _ st0 h0)

/-- and what an accepted node-point batch wrote is in the store right after it: for every point of the
    batch, a row of its identity at least as new (so, with `c04_acked_not_lost`, in the recovered store too) -/
theorem c04_batch_present (st st' : St) (hinv : Inv st) (id : Bytes) (pts : List Point) (h : nodePoints st id pts = .ok st')
    (p : Point) (hp : p ∈ pts) : ∃ q ∈ ptsOf st' id, sameId q (normPoint p) = true ∧ (normPoint p).time ≤ q.time := by
  rw [c01_nodePoints_rows st st' id pts h id]
  simp only [if_true]
  have hl := mergeBatch_lww (collapse (pts.map normPoint)) (ptsOf st id) (ptsOf st id) (Feed.idUnique_lww_self _ (hinv.npu id))
  obtain ⟨_, _, hcov⟩ := collapse_spec (pts.map normPoint)
  obtain ⟨cpt, hc, hcs, hct⟩ := hcov (normPoint p) (List.mem_map_of_mem (f := normPoint) hp)
  obtain ⟨q, hq, hqs⟩ := hl.cover cpt (by simp [hc])
  have hN := hl.newest q hq
  refine ⟨q, hq, sameId_trans q cpt _ hqs hcs, ?_⟩
  have := hN.2 cpt (by simp [hc]) (by rw [sameId_symm]; exact hqs)
  omega

/-- tie A: each write function runs one transaction and nothing outside it; the helpers that touch rows get
the transaction handed in; the root id is written inside the transaction that creates the root edge; the file
is opened in WAL mode with synchronous=NORMAL. -/
theorem gen_tx_pinned :
    Gen.nodePointsOneTx = true ∧ Gen.nodePointsNoDirectDb = true ∧ Gen.nodePointsRollbackOnReturn = true ∧
    Gen.nodePointsCommitLast = true ∧ Gen.nodePointsTxLockBeforeBegin = true ∧
    Gen.edgePointsOneTx = true ∧ Gen.edgePointsNoDirectDb = true ∧ Gen.edgePointsRollbackOnReturn = true ∧
    Gen.edgePointsCommitLast = true ∧ Gen.edgePointsTxLockBeforeBegin = true ∧
    Gen.updateHashHelperEdges = ["tx, \"SELECT * FROM edges WHERE down=?\", id"] ∧
    Gen.isAncestorEdges = ["tx, \"SELECT * FROM edges WHERE down=?\", of"] ∧
    Gen.writeHashCachePrepare = ["`UPDATE edges SET hash = ? WHERE id = ?`"] ∧
    Gen.edgePointsRootUpdate = ["\"UPDATE meta SET root_id = ?\", nodeID"] := by
  decide

theorem gen_pragmas_pinned :
    Gen.storePragmas = ["\"_pragma=busy_timeout(8000)&_pragma=foreign_keys(1)&_pragma=journal_mode(WAL)&_pragma=synchronous(NORMAL)&_pragma=journal_size_limit(100000000)\""] := rfl

/-- non-vacuity: a history of three batches, two acknowledged when the writer died; the two recoverable stores differ (the
    third batch changes a point) and both are prefix states; the empty store satisfies the invariant the theorems start from -/
example :
    let ops : List WOp := [
      .ep [97] [] [{ type := tombstoneT, time := 3 }, { type := nodeTypeT, text := [100], time := 3 }],
      .np [97] [{ type := [1], time := 5, value := 4607182418800017408 }],
      .np [97] [{ type := [1], time := 7, value := 4611686018427387904 }]]
    Inv ({} : St) ∧ recovered {} ops 2 false = run {} (ops.take 2) ∧ recovered {} ops 2 true = run {} ops ∧
      recovered {} ops 2 false ≠ recovered {} ops 2 true :=
  ⟨c03_reachable [], by decide +kernel, by decide +kernel, by decide +kernel⟩

end Siot.Crash
