import Siot.Lemmas.Feed
import Siot.Lemmas.FeedTies
import Siot.Gen.Manager
/-
C08 — A client is told of every foreign change to its subtree, never its own.
Property theorems only; helper lemmas live in Siot/Lemmas/Feed.lean. The rebroadcast facts come from C06.
-/
namespace Siot.Feed
open Siot Siot.Store

/-- all points of the batch were written by another party: origin set, and not the client -/
def Foreign (cid : Bytes) (pts : List Point) : Prop := ∀ p ∈ pts, p.origin ≠ [] ∧ p.origin ≠ cid

/-- all points of the batch were authored by the client itself -/
def Own (cid node : Bytes) (pts : List Point) : Prop :=
  ∀ p ∈ pts, (p.origin = [] ∧ node = cid) ∨ p.origin = cid

theorem echo_false_of_foreign (cid node : Bytes) (pts : List Point) (h : Foreign cid pts) : echo cid node pts = false := by
  unfold echo
  rw [List.any_eq_false]
  intro p hp
  obtain ⟨h1, h2⟩ := h p hp
  simp [h1, h2]

/-- **C08 (foreign changes are delivered).** In every reachable store state, when a node-point write on
`n` is accepted and the client's node `cid` is `n` itself or an ancestor of `n` through non-deleted
edges, a batch written by another party is handed to the client — unchanged, at least once. -/
theorem c08_foreign_delivered (isEven : Nat → Bool) (st : St) (hinv : Inv st) (cid n : Bytes) (pts : List Point)
    (hreach : Reach (keysOf (liveEdges isEven st)) n cid) (hf : Foreign cid pts) :
    Told.points n pts ∈ told isEven st cid (.np n pts) := by
  have hmem : cid ∈ pubsNode isEven st n := (c06_node_complete_and_tight isEven st hinv n cid).mpr hreach
  simp only [told, List.mem_flatMap, List.mem_filter, beq_iff_eq]
  refine ⟨cid, ⟨hmem, rfl⟩, ?_⟩
  simp [onNode, echo_false_of_foreign cid n pts hf]

/-- **C08 (own changes are not echoed).** A batch containing a point the client authored itself (empty
origin on its own node, or its id as origin) is not handed to it at all — in particular a non-empty
batch it authored entirely. -/
theorem c08_own_filtered (isEven : Nat → Bool) (st : St) (cid n : Bytes) (pts : List Point)
    (hne : pts ≠ []) (hown : Own cid n pts) : told isEven st cid (.np n pts) = [] := by
  have hecho : echo cid n pts = true := by
    unfold echo
    rw [List.any_eq_true]
    obtain ⟨p, hp⟩ := List.exists_mem_of_ne_nil pts hne
    refine ⟨p, hp, ?_⟩
    rcases hown p hp with ⟨h1, h2⟩ | h
    · simp [h1, h2]
    · simp [h]
  simp [told, onNode, hecho]

/-- **C08 (only from below).** Whatever the client is told about a node-point write comes from its own
node or from a descendant through non-deleted edges; about an edge-point write, through any edges. -/
theorem c08_only_from_below (isEven : Nat → Bool) (st : St) (hinv : Inv st) (cid : Bytes) (w : Write) (x : Told)
    (hx : x ∈ told isEven st cid w) :
    match w with
    | .np n _ => Reach (keysOf (liveEdges isEven st)) n cid
    | .ep n _ _ => Reach (keysOf st.edges) n cid := by
  cases w with
  | np n pts =>
    simp only [told, List.mem_flatMap, List.mem_filter, beq_iff_eq] at hx
    obtain ⟨c, ⟨hc, rfl⟩, _⟩ := hx
    exact (c06_node_complete_and_tight isEven st hinv n c).mp hc
  | ep n par pts =>
    simp only [told, List.mem_flatMap, List.mem_filter, beq_iff_eq] at hx
    obtain ⟨c, ⟨hc, rfl⟩, _⟩ := hx
    exact (c06_edge_complete_and_tight st hinv n c).mp hc

/-- **C08 (edge points pass through).** Edge points that are not life-cycle points (tombstone 0/1, node
type — those restart the client, C07) written on a node at or below the client are handed to it. -/
theorem c08_edge_points_delivered (isEven : Nat → Bool) (st : St) (hinv : Inv st) (cid n par : Bytes) (pts : List Point)
    (hreach : Reach (keysOf st.edges) n cid) (hplain : pts.any restarts = false) :
    Told.edgePoints n par pts ∈ told isEven st cid (.ep n par pts) := by
  have hmem : cid ∈ pubsEdge st n := (c06_edge_complete_and_tight st hinv n cid).mpr hreach
  simp only [told, List.mem_flatMap, List.mem_filter, beq_iff_eq]
  refine ⟨cid, ⟨hmem, rfl⟩, ?_⟩
  simp [onEdge, hplain]

/-- **C08 (order).** What the client is told is the history of accepted writes, each replaced by zero or
more copies of one callback — so callbacks come in the order the writes were accepted. -/
theorem c08_order (isEven : Nat → Bool) (cid : Bytes) (h1 h2 : List (St × Write)) :
    feed isEven cid (h1 ++ h2) = feed isEven cid h1 ++ feed isEven cid h2 ∧
    ∀ x ∈ h1, ∃ k t, told isEven x.1 cid x.2 = List.replicate k t := by
  refine ⟨by simp [feed], ?_⟩
  intro x _
  cases hw : x.2 with
  | np n pts =>
    refine ⟨if echo cid n pts then 0 else ((pubsNode isEven x.1 n).filter (· == cid)).length, .points n pts, ?_⟩
    simp only [told, onNode]
    by_cases he : echo cid n pts = true
    · simp [he]
    · have : echo cid n pts = false := by simpa using he
      simp only [this, Bool.false_eq_true, if_false]
      generalize ((pubsNode isEven x.1 n).filter (· == cid)) = l
      induction l with
      | nil => rfl
      | cons a l ih => simp [List.replicate_succ, ih]
  | ep n par pts =>
    refine ⟨((pubsEdge x.1 n).filter (· == cid)).length, if pts.any restarts then .restart else .edgePoints n par pts, ?_⟩
    simp only [told, onEdge]
    generalize ((pubsEdge x.1 n).filter (· == cid)) = l
    induction l with
    | nil => rfl
    | cons a l ih =>
      simp only [List.flatMap_cons, List.length_cons, List.replicate_succ, ih]
      split <;> rfl

/-- **C08 (the fold holds what the store holds).** Start from any rows of one node (one per identity)
that the client was constructed from, and let any batches be written to the node and be told to the client.
If per identity later deliveries carry later-or-EQUAL time stamps (`Mono`: non-decreasing, ties between
different points allowed), then folding the batches, point by point, last one wins, yields for every
identity exactly the row the store holds. -/
theorem c08_fold_holds_store (rows0 : List Point) (hu : IdUnique rows0) (bs : List (List Point))
    (hm : Mono (rows0 ++ delivered bs)) (x : Point) :
    lk (rowsAfter rows0 bs) x = lk (foldView rows0 bs.flatten) x :=
  fold_step_general bs rows0 rows0 hu hu (fun _ => rfl) (mono_below _ _ hm) (mono_tail _ _ hm) x

/-- the same as sets of rows, when moreover two different points of one identity never share a time stamp -/
theorem c08_fold_rows_equal (rows0 : List Point) (hu : IdUnique rows0) (bs : List (List Point))
    (hm : Mono (rows0 ++ delivered bs)) (ha : Admissible (rows0 ++ delivered bs)) (p : Point) :
    p ∈ rowsAfter rows0 bs ↔ p ∈ foldView rows0 bs.flatten := by
  have hS := rowsAfter_lww bs rows0 rows0 (idUnique_lww_self rows0 hu)
  have hC := foldView_lastWins bs.flatten rows0 rows0 (idUnique_lastWins_self rows0 hu)
  have hd : rows0 ++ List.map normPoint bs.flatten = rows0 ++ delivered bs := rfl
  rw [hd] at hC
  constructor
  · intro hp
    have hN := hS.newest p hp
    obtain ⟨v, hv, hvs⟩ := hC.cover p hN.1
    have := newest_eq_last _ hm ha p v hN (hC.last v hv) (by rw [sameId_symm]; exact hvs)
    rw [this]; exact hv
  · intro hp
    have hL := hC.last p hp
    have hpd : p ∈ rows0 ++ delivered bs := by
      obtain ⟨a, b, hab, _⟩ := hL
      rw [hab]; simp
    obtain ⟨r, hr, hrs⟩ := hS.cover p hpd
    have := newest_eq_last _ hm ha r p (hS.newest r hr) hL hrs
    rw [← this]; exact hr

/-- non-vacuity of the fold theorem: two batches, increasing times, keys "" and "0" naming one identity -/
example :
    let b1 : List Point := [{ type := [118], key := [], time := 3, value := 1, origin := [120] }]
    let b2 : List Point := [{ type := [118], key := [48], time := 5, value := 2, origin := [120] }, { type := [100], time := 6, origin := [120] }]
    rowsAfter [] [b1, b2] = foldView [] [b1, b2].flatten := by decide

/-- tie A: the subscription callback of client/manager.go has the shape the model transcribes: subject
`up.<client node>.>`, three chunks = node points with the two origin tests, four chunks = edge points
with the two life-cycle cases, the batch handed over unchanged. -/
theorem gen_feed_pinned :
    Gen.scanSubject = ["\"up.%v.>\", cs.node.ID"] ∧
    Gen.scanCallbackIfs = ["len(chunks) != 3 && len(chunks) != 4", "len(chunks) == 3", "p.Origin == \"\" && nodeID == cs.node.ID",
      "p.Origin == cs.node.ID", "len(chunks) == 4"] ∧
    Gen.scanCases = ["p.Type == data.PointTypeTombstone && p.Value == 1",
      "(p.Type == data.PointTypeTombstone && p.Value == 0) || p.Type == data.PointTypeNodeType"] ∧
    Gen.scanPoints = ["nodeID, points"] ∧ Gen.scanEdgePoints = ["chunks[2], chunks[3], points"] := by
  decide

/-- non-vacuity of `c08_foreign_delivered` / `c08_own_filtered` / `c08_fold_rows_equal`: a reachable store R → a → b with a
    client on `a`; a batch written to `b` by someone else, a batch the client wrote itself, and a history of deliveries in
    time order with distinct time stamps per identity -/
example :
    let isEven : Nat → Bool := fun v => v != 4607182418800017408
    let nt : Int → Point := fun t => { type := nodeTypeT, text := [100], time := t }
    let st := run {} [
      .ep [82] [] [{ type := tombstoneT, time := 1 }, nt 1],
      .ep [97] [82] [{ type := tombstoneT, time := 2 }, nt 2],
      .ep [98] [97] [{ type := tombstoneT, time := 3 }, nt 3]]
    let foreign : List Point := [{ type := [118], time := 5, value := 1, origin := [120] }]
    let own : List Point := [{ type := [118], time := 6, value := 2, origin := [97] }]
    let bs : List (List Point) := [[{ type := [118], time := 3, value := 1 }], [{ type := [118], key := [48], time := 5, value := 2 }, { type := [100], time := 4 }]]
    Inv st ∧ Reach (keysOf (liveEdges isEven st)) [98] [97] ∧ Foreign [97] foreign ∧ own ≠ [] ∧ Own [97] [98] own ∧
      Mono ([] ++ delivered bs) ∧ Admissible ([] ++ delivered bs) := by
  intro isEven nt st foreign own bs
  have hinv : Inv st := c03_reachable _
  refine ⟨hinv, (c06_node_complete_and_tight isEven st hinv [98] [97]).mp (by decide +kernel), ?_, by decide, ?_, ?_, ?_⟩
  · intro p hp
    simp only [foreign, List.mem_singleton] at hp
    rw [hp]; decide
  · intro p hp
    simp only [own, List.mem_singleton] at hp
    rw [hp]; exact Or.inr rfl
  · have e : ([] : List Point) ++ delivered bs = [{ type := [118], key := zeroKey, time := 3, value := 1 }, { type := [118], key := [48], time := 5, value := 2 }, { type := [100], key := zeroKey, time := 4 }] := by decide +kernel
    rw [e]
    intro a p b q c hsplit hs
    -- three elements: enumerate the positions of p and q
    rcases a with _ | ⟨a0, a⟩
    · simp only [List.nil_append, List.cons_append, List.cons.injEq] at hsplit
      obtain ⟨rfl, hrest⟩ := hsplit
      rcases b with _ | ⟨b0, b⟩
      · simp only [List.nil_append, List.cons.injEq] at hrest
        obtain ⟨rfl, _⟩ := hrest
        decide
      · simp only [List.cons_append, List.cons.injEq] at hrest
        obtain ⟨_, hrest⟩ := hrest
        rcases b with _ | ⟨b1, b⟩
        · simp only [List.nil_append, List.cons.injEq] at hrest
          obtain ⟨rfl, _⟩ := hrest
          revert hs; decide
        · simp at hrest
    · simp only [List.cons_append, List.cons.injEq] at hsplit
      obtain ⟨_, hsplit⟩ := hsplit
      rcases a with _ | ⟨a1, a⟩
      · simp only [List.nil_append, List.cons_append, List.cons.injEq] at hsplit
        obtain ⟨rfl, hrest⟩ := hsplit
        rcases b with _ | ⟨b0, b⟩
        · simp only [List.nil_append, List.cons.injEq] at hrest
          obtain ⟨rfl, _⟩ := hrest
          revert hs; decide
        · simp at hrest
      · simp only [List.cons_append, List.cons.injEq] at hsplit
        obtain ⟨_, hsplit⟩ := hsplit
        rcases a with _ | ⟨a2, a⟩
        · simp only [List.nil_append, List.cons_append, List.cons.injEq] at hsplit
          obtain ⟨_, hrest⟩ := hsplit
          rcases b with _ | ⟨b0, b⟩ <;> simp at hrest
        · simp at hsplit
  · have e : ([] : List Point) ++ delivered bs = [{ type := [118], key := zeroKey, time := 3, value := 1 }, { type := [118], key := [48], time := 5, value := 2 }, { type := [100], key := zeroKey, time := 4 }] := by decide +kernel
    rw [e]
    unfold Admissible
    decide

end Siot.Feed
