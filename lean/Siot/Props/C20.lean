import Siot.Model.Conc
import Siot.Props.C04
import Siot.Gen.StoreRun
/-
C20 — Concurrent use is safe (the part a theorem can carry).
A concurrent run is represented by its commit order (see Siot/Model/Conc.lean). The theorems hold for EVERY
commit order, so no assumption is made on how the scheduler interleaves the writers.
Data races, deadlock, unanswered requests and termination are run-time matters: they are decided by the
load harness (history checks, `go build -race`, stop and re-open), not by these theorems — partial.
-/
namespace Siot.Conc
open Siot Siot.Store Siot.Sync Siot.Crash

/-- **C20 (reads never go back).** Along any commit order the store only moves forward: what a read saw
after `i` commits is still there after `j ≥ i` commits, or superseded by newer-or-equal points. Two
successive reads therefore never show an older time stamp for any point. -/
theorem c20_reads_monotone (st0 : St) (h0 : Inv st0) (commits : List WOp) (i j : Nat) (hij : i ≤ j) :
    StLe (stateAt st0 commits i) (stateAt st0 commits j) := by
  unfold stateAt
  have hsplit : commits.take j = commits.take i ++ (commits.take j).drop i := by
    have := List.take_append_drop i (commits.take j)
    rw [List.take_take, Nat.min_eq_left hij] at this
    exact this.symm
  rw [hsplit, run_append]
  exact run_le _ _ (run_inv _ st0 h0)

/-- **C20 (an acknowledged write is visible to every later read).** If the batch at position `i` of the
commit order was an accepted node-point batch, every read that sees at least `i + 1` commits — in particular
every read invoked after the acknowledgement — shows, for each point of the batch, a row of its identity that
is at least as new. -/
theorem c20_acked_write_visible (st0 : St) (h0 : Inv st0) (commits : List WOp) (i j : Nat) (hij : i + 1 ≤ j)
    (id : Bytes) (pts : List Point) (hop : commits[i]? = some (.np id pts))
    (hacc : ∃ st', nodePoints (stateAt st0 commits i) id pts = .ok st') (p : Point) (hp : p ∈ pts) :
    ∃ q ∈ ptsOf (stateAt st0 commits j) id, sameId q (normPoint p) = true ∧ (normPoint p).time ≤ q.time := by
  obtain ⟨st', hst'⟩ := hacc
  have hinv : Inv (stateAt st0 commits i) := run_inv _ st0 h0
  -- the state after i+1 commits is st'
  have hnext : stateAt st0 commits (i + 1) = st' := by
    unfold stateAt
    have hlt : i < commits.length := by
      cases hget : commits[i]? with
      | none => rw [hget] at hop; cases hop
      | some x => exact (List.getElem?_eq_some_iff.mp hget).1
    rw [List.take_succ, run_append]
    have : commits[i]?.toList = [.np id pts] := by rw [hop]; rfl
    rw [this]
    simp only [run, step]
    unfold stateAt at hst'
    rw [hst']
  obtain ⟨q, hq, hs, ht⟩ := c04_batch_present _ st' hinv id pts hst' p hp
  have hle := c20_reads_monotone st0 h0 commits (i + 1) j hij
  rw [hnext] at hle
  obtain ⟨q2, hq2, hs2, ht2⟩ := hle.nodes id q hq
  exact ⟨q2, hq2, sameId_trans q2 q _ hs2 hs, by omega⟩

/-- **C20 (the content is that of a serial order, with consistent hashes).** After any commit order the
store satisfies the store invariants (C03), and the rows of a node are the same whatever the order in which
the same batches were committed (C01: last write wins makes the order irrelevant). -/
theorem c20_final_serial_and_consistent (st0 : St) (h0 : Inv st0) (commits : List WOp) :
    Inv (run st0 commits) ∧ hashInv (run st0 commits) = true :=
  ⟨run_inv _ st0 h0, c03_verify_clean _ (run_inv _ st0 h0)⟩

theorem c20_commit_order_irrelevant (bs bs' : List (List Point))
    (hsame : ∀ p, p ∈ delivered bs ↔ p ∈ delivered bs') (hadm : Admissible (delivered bs)) :
    ∀ p, p ∈ rowsAfter [] bs ↔ p ∈ rowsAfter [] bs' :=
  c01_order_batching_irrelevant bs bs' hsame hadm


/-- tie A: the table of request handlers `Store.Run` subscribes, each under its own key of the subscription map, and the
one loop over that map that unsubscribes them before the database is closed (two handlers under one key would leave
one of them subscribed after the stop). -/
theorem gen_store_run_pinned :
    Gen.storeRunSubs = ["\"nodePoints\" <- \"p.*\", st.handleNodePoints", "\"edgePoints\" <- \"p.*.*\", st.handleEdgePoints",
      "\"nodes\" <- \"nodes.*.*\", st.handleNodesRequest", "\"auth.user\" <- \"auth.user\", st.handleAuthUser",
      "\"auth.getNatsURI\" <- \"auth.getNatsURI\", st.handleAuthGetNatsURI",
      "\"admin.storeVerify\" <- \"admin.storeVerify\", st.handleStoreVerify", "\"admin.storeMaint\" <- \"admin.storeMaint\", st.handleStoreMaint"] ∧
    Gen.storeRunRanges = ["st.subscriptions"] ∧ Gen.storeRunCloses.length = 2 ∧ Gen.storeRunKeysDistinct = true :=
  ⟨rfl, rfl, rfl, rfl⟩

/-- non-vacuity: a commit order of four writes (one refused: NaN); a write acknowledged at position 1 is visible at every later
    position, and the states along the order differ -/
example :
    let commits : List WOp := [
      .ep [97] [] [{ type := tombstoneT, time := 3 }, { type := nodeTypeT, text := [100], time := 3 }],
      .np [97] [{ type := [1], time := 5, value := 4607182418800017408 }],
      .np [97] [{ type := [1], time := 4, value := 9221120237041090560 }],
      .np [97] [{ type := [1], time := 7, value := 4611686018427387904 }]]
    Inv ({} : St) ∧ commits[1]? = some (.np [97] [{ type := [1], time := 5, value := 4607182418800017408 }]) ∧
      (∃ st', nodePoints (stateAt {} commits 1) [97] [{ type := [1], time := 5, value := 4607182418800017408 }] = .ok st') ∧
      stateAt {} commits 2 = stateAt {} commits 3 ∧ stateAt {} commits 3 ≠ stateAt {} commits 4 := by
  intro commits
  refine ⟨c03_reachable [], rfl, ⟨stateAt {} commits 2, by decide +kernel⟩, by decide +kernel, by decide +kernel⟩

end Siot.Conc
