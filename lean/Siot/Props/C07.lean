import Siot.Lemmas.Manager
import Siot.Lemmas.StoreSteps
import Siot.Props.C03
import Siot.Gen.Manager
/-
C07 — Exactly one running client per live configured node.
Property theorems only; helper lemmas live in Siot/Lemmas/Manager.lean.
The bookkeeping model is that of the REPAIRED scan (no early return on an empty result).
-/
namespace Siot.Manager
open Siot Siot.Store

/-- **C07 (which nodes get a client).** In every reachable store state, the placements a manager wants a
client for are exactly the non-deleted edges `parent → id` of the managed type whose parent is the root
node or can be reached from it going down through non-deleted edges to nodes of a parent type (the
configured ones, or "group") — one placement per parent the node appears under. -/
theorem c07_wanted_iff (isDel : Nat → Bool) (st : St) (hinv : Inv st) (typ : Bytes) (parents : List Bytes) (k : Key) :
    k ∈ wanted isDel st typ parents ↔
      Path (Auth.live isDel st) (parents ++ [groupT]) st.root k.1 ∧
      ∃ e ∈ Auth.live isDel st, e.up = k.1 ∧ e.down = k.2 ∧ e.typ = typ := by
  obtain ⟨r, hr1, hr2⟩ := hinv.ranked
  have hrl : ∀ e ∈ Auth.live isDel st, r e.up < r e.down := by
    intro e he
    have hm : e ∈ st.edges := (List.mem_filter.mp he).1
    exact hr1 (keyOf e) (List.mem_map_of_mem (f := keyOf) hm)
  constructor
  · exact scanH_sound _ _ _ _ _ k
  · rintro ⟨hp, e, he, hup, hdown, htyp⟩
    have := scanH_complete (Auth.live isDel st) typ (parents ++ [groupT]) r (2 ^ st.edges.length) hrl hr2
      (2 ^ st.edges.length + 1) st.root k.1 (by have := hr2 st.root; omega) hp e he hup htyp
    have hk : k = (e.up, e.down) := by rw [hup, hdown]
    rw [hk]; exact this

/-- **C07 (never two clients for one placement).** Whatever happens — scans, life-cycle triggers, client
exits, Stop, in any order and with the store changing arbitrarily in between — the manager never holds
two clients for the same placement: a placement's client is replaced only after its predecessor's Run
has returned and it has been removed. -/
theorem c07_one_client_per_placement (es : List Event) : (keys (run {} es).clients).Nodup := by
  have : ∀ (es : List Event) (m : Mgr), (keys m.clients).Nodup → (keys (run m es).clients).Nodup := by
    intro es
    induction es with
    | nil => intro m h; exact h
    | cons e es ih => intro m h; exact ih _ (step_nodup m e h)
  exact this es {} (by simp [keys])

/-- **C07 (quiescence).** Let the store stop changing (`w`: the wanted placements with the children each
would be constructed with; `bad`: those among them whose client cannot be constructed — newClientState fails, e.g.
a point the configuration cannot take). From ANY manager state with one client per placement that is running, after
one scan and after the clients told to stop have exited (any number of exits, in any order — each is
followed by the manager's rescan), as soon as no client is stopping any more:
every wanted placement whose client can be constructed has a client, only wanted placements have one, one each;
no client was constructed for a placement whose construction fails (the manager neither crashes on it nor runs a
half-made client: such a placement has a client only if it had one before); and (given that every running client's
children were current, which `c07_children_current_kept` maintains) every client holds the current children. -/
theorem c07_quiesce (bad : List Key) (w : Want) (m : Mgr) (hnd : (keys m.clients).Nodup) (hlive : m.stopping = false ∧ m.done = false)
    (hf : Fresh w m) (ks : List Key) :
    let m' := run (step m (.scan w bad)) (ks.map (fun k => Event.exited k w bad))
    (∀ c ∈ m'.clients, c.stopping = false) →
      (∀ k ∈ wkeys w, k ∉ bad → k ∈ keys m'.clients) ∧ (∀ k ∈ keys m'.clients, k ∈ wkeys w) ∧
      (∀ k ∈ keys m'.clients, k ∈ bad → k ∈ keys m.clients) ∧ (keys m'.clients).Nodup ∧ Fresh w m' := by
  intro m' hquiet
  have h0 : Toward bad w (step m (.scan w bad)) := by
    simp only [step, hlive.2, Bool.false_eq_true, if_false]
    exact scan_toward bad w m hnd hlive
  have hf0 : Fresh w (step m (.scan w bad)) := by
    simp only [step, hlive.2, Bool.false_eq_true, if_false]
    exact scan_fresh bad w m hnd hlive.1 hf
  obtain ⟨ht, hfr⟩ := exits_toward bad w ks _ h0 hf0
  -- no event of this run constructs a client for a bad placement
  have hsub : ∀ (ks : List Key) (m0 : Mgr), (keys m0.clients).Nodup →
      ∀ k ∈ keys (run m0 (ks.map (fun k => Event.exited k w bad))).clients, k ∈ bad → k ∈ keys m0.clients := by
    intro ks
    induction ks with
    | nil => intro m0 _ k hk _; exact hk
    | cons k0 ks ih =>
      intro m0 hnd0 k hk hb
      simp only [List.map_cons, run, List.foldl_cons] at hk
      have h1 := ih (step m0 (.exited k0 w bad)) (step_nodup m0 _ hnd0) k hk hb
      simp only [step] at h1
      split at h1
      · split at h1
        · simp only [keys, List.mem_map, List.mem_filter] at h1 ⊢
          obtain ⟨c, ⟨hc, _⟩, rfl⟩ := h1
          exact ⟨c, hc, rfl⟩
        · rcases scan_keys_sub bad w _ (keys_filter_nodup _ _ hnd0) k h1 with h2 | h2
          · simp only [keys, List.mem_map, List.mem_filter] at h2 ⊢
            obtain ⟨c, ⟨hc, _⟩, rfl⟩ := h2
            exact ⟨c, hc, rfl⟩
          · exact absurd hb h2.2
      · exact h1
  refine ⟨ht.have_all, ?_, ?_, ht.nodup, hfr⟩
  · intro k hk
    simp only [keys, List.mem_map] at hk
    obtain ⟨c, hc, rfl⟩ := hk
    by_cases hw : c.key ∈ wkeys w
    · exact hw
    · have := ht.extra_stopping c hc hw
      rw [hquiet c hc] at this
      cases this
  · intro k hk hb
    have h1 := hsub ks (step m (.scan w bad)) (step_nodup m _ hnd) k hk hb
    simp only [step, hlive.2, Bool.false_eq_true, if_false] at h1
    rcases scan_keys_sub bad w m hnd k h1 with h2 | h2
    · exact h2
    · exact absurd hb h2.2

/-- progress: while some client is stopping, an exit is possible and removes it; the number of clients
    told to stop never grows by exits and rescans (so quiescence is reached after that many exits) -/
theorem c07_exit_removes (bad : List Key) (w : Want) (m : Mgr) (h : Toward bad w m) (c : Client) (hc : c ∈ m.clients) (hs : c.stopping = true) :
    ∀ c' ∈ (step m (.exited c.key w bad)).clients, c'.key = c.key → c'.stopping = false := by
  intro c' hc' hk
  have hany : m.clients.any (fun x => x.key == c.key && x.stopping) = true := by
    rw [List.any_eq_true]; exact ⟨c, hc, by simp [hs]⟩
  simp only [step, hany, if_true, h.live.1, Bool.false_eq_true, if_false] at hc'
  rw [scan_eq _ _ _ rfl] at hc'
  simp only at hc'
  have hnd : (keys (m.clients.filter (fun x => !(x.key == c.key)))).Nodup := keys_filter_nodup _ _ h.nodup
  have hk' := keys_mark w (m.clients.filter (fun x => !(x.key == c.key)))
  obtain ⟨_, _, i3, _⟩ := startNew_spec (startable bad w) (mark w (m.clients.filter (fun x => !(x.key == c.key)))) (by rw [hk']; exact hnd)
  rcases i3 c' hc' with h1 | ⟨_, h2, _⟩
  · exfalso
    simp only [mark, List.mem_map, List.mem_filter] at h1
    obtain ⟨c0, ⟨_, hne⟩, hc0⟩ := h1
    have : c0.key = c.key := by
      rw [← hk, ← hc0]; split <;> rfl
    simp [this] at hne
  · exact h2

/-- a store change that alters the children of some placements, with the affected clients' subscriptions
    triggering (C06/C08: the child's edge points reach `up.<client>.>`), keeps running clients current -/
theorem c07_children_current_kept (w w' : Want) (m : Mgr) (hf : Fresh w m)
    (changed : List Key) (hch : ∀ k, lookupW w k ≠ lookupW w' k → k ∈ changed) :
    Fresh w' (changed.foldl (fun m k => step m (.trigger k)) m) := by
  have key : ∀ (ch : List Key) (m : Mgr),
      (∀ c ∈ m.clients, c.stopping = false → c.key ∉ ch → ∀ x, lookupW w c.key = some x → c.children = x) →
      (∀ c ∈ m.clients, c.key ∈ ch → ∀ k ∈ ch, True) →
      ∀ c ∈ (ch.foldl (fun m k => step m (.trigger k)) m).clients, c.stopping = false →
        c.key ∉ ch ∧ ∀ x, lookupW w c.key = some x → c.children = x := by
    intro ch
    induction ch with
    | nil => intro m h _ c hc hs; exact ⟨by simp, h c hc hs (by simp)⟩
    | cons k ch ih =>
      intro m h _ c hc hs
      simp only [List.foldl_cons] at hc
      have := ih (step m (.trigger k)) (by
        intro c1 hc1 hs1 hn1 x hx
        simp only [step, List.mem_map] at hc1
        obtain ⟨c0, hc0, rfl⟩ := hc1
        by_cases hk : c0.key == k
        · simp [hk] at hs1
        · simp only [hk, Bool.false_eq_true, if_false] at hs1 hn1 hx ⊢
          apply h c0 hc0 hs1 _ x hx
          simp only [List.mem_cons, not_or]
          exact ⟨by intro e; simp [e] at hk, hn1⟩) (fun _ _ _ _ _ => trivial) c hc hs
      refine ⟨?_, this.2⟩
      simp only [List.mem_cons, not_or]
      refine ⟨?_, this.1⟩
      -- a client with key k has been told to stop by the first trigger and stays so
      intro hck
      have hstay : ∀ (ch : List Key) (m : Mgr), (∀ c ∈ m.clients, c.key = k → c.stopping = true) →
          ∀ c ∈ (ch.foldl (fun m k => step m (.trigger k)) m).clients, c.key = k → c.stopping = true := by
        intro ch
        induction ch with
        | nil => intro m h c hc; exact h c hc
        | cons k2 ch ih2 =>
          intro m h c hc
          simp only [List.foldl_cons] at hc
          apply ih2 (step m (.trigger k2)) _ c hc
          intro c1 hc1 hk1
          simp only [step, List.mem_map] at hc1
          obtain ⟨c0, hc0, rfl⟩ := hc1
          by_cases hk2 : c0.key == k2
          · simp [hk2]
          · simp only [hk2, Bool.false_eq_true, if_false] at hk1 ⊢
            exact h c0 hc0 hk1
      have := hstay ch (step m (.trigger k)) (by
        intro c1 hc1 hk1
        simp only [step, List.mem_map] at hc1
        obtain ⟨c0, hc0, rfl⟩ := hc1
        by_cases hk2 : c0.key == k
        · simp [hk2]
        · exfalso
          simp only [hk2, Bool.false_eq_true, if_false] at hk1
          simp [hk1] at hk2) c hc hck
      rw [hs] at this; cases this
  intro c hc hs x hx
  obtain ⟨hnc, hval⟩ := key changed m (fun c hc hs _ x hx => hf c hc hs x hx) (fun _ _ _ _ _ => trivial) c hc hs
  have heq : lookupW w c.key = lookupW w' c.key := by
    by_cases he : lookupW w c.key = lookupW w' c.key
    · exact he
    · exact absurd (hch c.key he) hnc
  exact hval x (by rw [heq]; exact hx)

/-- **C07 (Stop stops everything and returns).** After `Stop`, once every client has exited (the exits
may come in any order, cover every client), no client is left and Run has returned. -/
theorem c07_stop_returns (m : Mgr) (ks : List (Key × Want)) (hcover : ∀ c ∈ m.clients, c.key ∈ ks.map (·.1)) :
    let m' := run (step m .stop) (ks.map (fun x => Event.exited x.1 x.2 []))
    m'.clients = [] ∧ m'.done = true := by
  have key : ∀ (ks : List (Key × Want)) (m : Mgr), m.stopping = true → (∀ c ∈ m.clients, c.stopping = true) →
      (m.clients = [] → m.done = true) → (∀ c ∈ m.clients, c.key ∈ ks.map (·.1)) →
      (run m (ks.map (fun x => Event.exited x.1 x.2 []))).clients = [] ∧ (run m (ks.map (fun x => Event.exited x.1 x.2 []))).done = true := by
    intro ks
    induction ks with
    | nil =>
      intro m _ _ hd hc
      have : m.clients = [] := by
        cases hcl : m.clients with
        | nil => rfl
        | cons a l => have := hc a (by rw [hcl]; simp); simp at this
      exact ⟨this, hd this⟩
    | cons x ks ih =>
      intro m hst hall hd hc
      simp only [List.map_cons, run, List.foldl_cons]
      apply ih
      · simp only [step]; split
        · simp [hst]
        · exact hst
      · intro c hcm
        simp only [step] at hcm
        split at hcm
        · simp only [hst, if_true, List.mem_filter] at hcm
          exact hall c hcm.1
        · exact hall c hcm
      · intro hempty
        simp only [step] at hempty ⊢
        split
        · rename_i hany
          simp only [hany, if_true, hst] at hempty ⊢
          simp [hempty]
        · rename_i hany
          simp only [hany] at hempty
          exact hd (by simpa using hempty)
      · intro c hcm
        simp only [step] at hcm
        split at hcm
        · simp only [hst, if_true, List.mem_filter, Bool.not_eq_true', beq_eq_false_iff_ne] at hcm
          have := hc c hcm.1
          simp only [List.map_cons, List.mem_cons] at this
          rcases this with h | h
          · exact absurd h hcm.2
          · exact h
        · rename_i hany
          have h1 := hc c hcm
          simp only [List.map_cons, List.mem_cons] at h1
          rcases h1 with h | h
          · exfalso
            apply hany
            rw [List.any_eq_true]
            exact ⟨c, hcm, by simp [h, hall c hcm]⟩
          · exact h
  intro m'
  apply key
  · simp [step]
  · intro c hc
    simp only [step, List.mem_map] at hc
    obtain ⟨c0, _, rfl⟩ := hc
    rfl
  · intro h
    simp only [step] at h ⊢
    have : m.clients = [] := by simpa using h
    simp [this]
  · intro c hc
    simp only [step, List.mem_map] at hc
    obtain ⟨c0, hc0, rfl⟩ := hc
    exact hcover c0 hc0

/-- non-vacuity: a deleted group takes the last client with it — the scan result is empty, the client
    is told to stop, and after its exit nothing runs (the history that fails before the repair) -/
example :
    let k : Key := ([103], [99])
    let m := run {} [.scan [(k, [])] [], .scan [] [], .exited k [] []]
    m.clients = [] ∧ (run {} [.scan [(k, [])] [], .scan [] []]).clients = [⟨k, [], true⟩] := by decide

/-- non-vacuity of the `bad` part: a placement whose client cannot be constructed is skipped while its neighbour gets
    a client; once it can be constructed (the point was repaired), the next scan starts it -/
example :
    let k : Key := ([103], [99])
    let b : Key := ([103], [98])
    (run {} [.scan [(k, []), (b, [])] [b]]).clients = [⟨k, [], false⟩] ∧
    (run {} [.scan [(k, []), (b, [])] [b], .scan [(k, []), (b, [])] []]).clients = [⟨k, [], false⟩, ⟨b, [], false⟩] := by decide

/-- tie A: scanHelper, the bookkeeping of scan, the exit hand-shake and Stop in client/manager.go and
client/client-state.go have the shape the model transcribes (after the repair: no early return). -/
theorem gen_manager_pinned :
    Gen.scanHelperGetNodes = ["m.nc, id, \"all\", m.nodeType, false", "m.nc, id, \"all\", parentType, false"] ∧
    Gen.scanHelperRanges = ["m.parentTypes", "parentNodes"] ∧
    Gen.mapKeyReturn = ["node.Parent + \"-\" + node.ID"] ∧
    Gen.scanRanges = ["nodes", "points", "points", "m.clientStates"] ∧
    Gen.scanNew = ["m.nc, m.construct, n"] ∧
    Gen.scanBookIfs = ["err != nil", "ok", "err != nil", "err != nil", "ok"] ∧
    -- the third `if` is the one after newClientState: it skips the node (after the repair) instead of going on with a nil state
    Gen.scanIfExits = ["err != nil -> return", "ok -> continue", "err != nil -> continue", "err != nil -> return", "ok -> continue"] ∧
    Gen.runScans = ["m.root", "m.root", "", "", ""] ∧
    Gen.runDeletes = ["m.clientUpSub, key", "m.clientStates, key"] ∧
    Gen.runIfsMgr = ["err != nil", "len(nodes) < 1", "err != nil", "p.Type == data.PointTypeNodeType", "err != nil", "err != nil", "stopping",
      "err != nil", "len(m.clientStates) > 0", "err != nil", "!m.clientUpSub[key].IsValid()", "time.Since(start) > time.Second*1", "err != nil",
      "stopping", "len(m.clientStates) <= 0"] ∧
    Gen.newManagerParents = ["nodeType: nodeType", "parentTypes: append(parentTypes, data.NodeTypeGroup)"] ∧
    Gen.csNewGetNodes = ["nc, n.ID, \"all\", \"\", false"] := by
  decide

/-- non-vacuity of `c07_wanted_iff` and of the premises of `c07_quiesce`: a reachable store — root device R, a group g below it,
    a client node c1 (type "vdev") in the group, a second one c2 below a DELETED group — wants exactly the placement (g, c1);
    and a manager that has just scanned for it satisfies `Nodup`, is live, and is `Fresh` -/
example :
    let isDel : Nat → Bool := fun v => v == 4607182418800017408
    let nt : Bytes → Int → Point := fun ty t => { type := nodeTypeT, text := ty, time := t }
    let vdev : Bytes := [118, 100, 101, 118]
    let st := Store.run {} [
      .ep [82] [] [{ type := tombstoneT, time := 1 }, nt [100] 1],
      .ep [103] [82] [{ type := tombstoneT, time := 2 }, nt groupT 2],
      .ep [104] [82] [{ type := tombstoneT, time := 3, value := 4607182418800017408 }, nt groupT 3],
      .ep [99, 49] [103] [{ type := tombstoneT, time := 4 }, nt vdev 4],
      .ep [99, 50] [104] [{ type := tombstoneT, time := 5 }, nt vdev 5]]
    let w : Want := [(([103], [99, 49]), [])]
    let m := Manager.step {} (.scan w [])
    Store.Inv st ∧ wanted isDel st vdev [] = [([103], [99, 49])] ∧
      (keys m.clients).Nodup ∧ (m.stopping = false ∧ m.done = false) ∧ Fresh w m ∧ m.clients ≠ [] := by
  intro isDel nt vdev st w m
  refine ⟨Store.c03_reachable _, by decide +kernel, by decide +kernel, by decide +kernel, ?_, by decide +kernel⟩
  have hm : m.clients = [⟨([103], [99, 49]), [], false⟩] := by decide +kernel
  intro c hc _ ch hl
  rw [hm, List.mem_singleton] at hc
  subst hc
  have : lookupW w ([103], [99, 49]) = some [] := by decide +kernel
  rw [this] at hl
  injection hl with hl

end Siot.Manager
