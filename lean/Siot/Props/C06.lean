import Siot.Props.C05
import Siot.Model.Rebroadcast
import Siot.Gen.Rebroadcast
/-
C06 — Every accepted change is rebroadcast to every live ancestor (and to nothing else).
-/
namespace Siot.Store
open Siot

theorem keysOf_filter_sub (es : List Edge) (p : Edge → Bool) : ∀ k ∈ keysOf (es.filter p), k ∈ keysOf es := by
  intro k hk
  simp only [keysOf, List.mem_map, List.mem_filter] at hk ⊢
  obtain ⟨e, ⟨he, _⟩, hek⟩ := hk
  exact ⟨e, he, hek⟩

/-- **C06 node points: complete and tight.** In every reachable store state, a node-point write on
node `n` is republished on the subject of exactly the nodes reachable from `n` upward through edges
whose tombstone is even (not deleted) — `n` itself, every live ancestor, the root sentinel when the
root is reached — and on no other subject. -/
theorem c06_node_complete_and_tight (isEven : Nat → Bool) (st : St) (hinv : Inv st) (n x : Bytes) :
    x ∈ pubsNode isEven st n ↔ Reach (keysOf (liveEdges isEven st)) n x := by
  obtain ⟨r, hr1, hr2⟩ := hinv.ranked
  unfold pubsNode
  constructor
  · exact ancestors_sound _ _ n x
  · exact ancestors_complete _ r (fun k hk => hr1 k (keysOf_filter_sub _ _ k hk)) _ n x (hr2 n)

/-- **C06 edge points: complete and tight**, through any edges (deleted ones included). -/
theorem c06_edge_complete_and_tight (st : St) (hinv : Inv st) (n x : Bytes) :
    x ∈ pubsEdge st n ↔ Reach (keysOf st.edges) n x :=
  c05_walks_complete st hinv n x

/-- what is announced for node points is also announced for edge points (live ⊆ any) -/
theorem c06_node_sub_edge (isEven : Nat → Bool) (st : St) (hinv : Inv st) (n x : Bytes)
    (h : x ∈ pubsNode isEven st n) : x ∈ pubsEdge st n := by
  rw [c06_edge_complete_and_tight st hinv]
  have := (c06_node_complete_and_tight isEven st hinv n x).mp h
  clear h
  induction this with
  | refl => exact .refl _
  | step n x k hk hkn _ ih => exact .step n x k (keysOf_filter_sub _ _ k hk) hkn ih

/-- the written node itself is always among the subjects -/
theorem c06_self (isEven : Nat → Bool) (st : St) (hinv : Inv st) (n : Bytes) : n ∈ pubsNode isEven st n :=
  (c06_node_complete_and_tight isEven st hinv n n).mpr (.refl n)

/-- tie A: the republish recursion in store/store.go and `up` in store/sqlite.go have the shape the model
assumes: one publication per visited node on `up.<visited>.<node>[.<parent>]` with the points as
received, recursion over exactly `up(visited, false)` (node points) / `up(visited, true)` (edge points),
`up` = parents by `down = ?`, skipping an edge iff `math.Mod(tombstone, 2) ≠ 0`; the handlers start the
walk at the written node itself. -/
theorem gen_rebroadcast_pinned :
    Gen.processPointsUpstreamSubject = ["\"up.%v.%v\", upNodeID, nodeID"] ∧
    Gen.processPointsUpstreamUp = ["upNodeID, false"] ∧
    Gen.processPointsUpstreamRec = ["up, nodeID, points"] ∧
    Gen.processPointsUpstreamSend = ["st.nc, sub, points, false"] ∧
    Gen.processPointsUpstreamCmps = ["!=nil", "==\"none\"", "!=nil", "!=nil"] ∧
    Gen.processPointsUpstreamRanges = ["ups"] ∧
    Gen.processEdgePointsUpstreamSubject = ["\"up.%v.%v.%v\", upNodeID, nodeID, parentID"] ∧
    Gen.processEdgePointsUpstreamUp = ["upNodeID, true"] ∧
    Gen.processEdgePointsUpstreamRec = ["up, nodeID, parentID, points"] ∧
    Gen.processEdgePointsUpstreamSend = ["st.nc, sub, points, false"] ∧
    Gen.processEdgePointsUpstreamCmps = ["!=nil", "==\"none\"", "!=nil", "!=nil"] ∧
    Gen.processEdgePointsUpstreamRanges = ["ups"] ∧
    Gen.upQuery = "SELECT * FROM edges WHERE down=?" ∧
    Gen.upCmps = ["!=nil", "==0"] ∧ Gen.upMod = ["p.Value, 2"] ∧
    Gen.upFind = ["data.PointTypeTombstone, \"\""] ∧
    Gen.handleNodePointsUp = ["nodeID, nodeID, points"] ∧
    Gen.handleEdgePointsUp = ["nodeID, nodeID, parentID, points"] := by
  decide

/-- non-vacuity: a reachable store R → a → b with a second, deleted, edge c → b: node points of `b` are announced to b, a
    and R but not to c; edge points also to c -/
example :
    let isEven : Nat → Bool := fun v => v != 4607182418800017408
    let nt : Int → Point := fun t => { type := nodeTypeT, text := [100], time := t }
    let st := run {} [
      .ep [82] [] [{ type := tombstoneT, time := 1 }, nt 1],
      .ep [97] [82] [{ type := tombstoneT, time := 2 }, nt 2],
      .ep [99] [82] [{ type := tombstoneT, time := 3 }, nt 3],
      .ep [98] [97] [{ type := tombstoneT, time := 4 }, nt 4],
      .ep [98] [99] [{ type := tombstoneT, time := 5, value := 4607182418800017408 }, nt 5]]
    Inv st ∧ st.edges.length = 5 ∧
      ([97] ∈ pubsNode isEven st [98] ∧ [82] ∈ pubsNode isEven st [98] ∧ [99] ∉ pubsNode isEven st [98]) ∧ [99] ∈ pubsEdge st [98] := by
  intro isEven nt st
  exact ⟨c03_reachable _, by decide +kernel, by decide +kernel, by decide +kernel⟩

end Siot.Store
