import Siot.Lemmas.ModbusConforms
import Siot.Gen.Modbus
/-
C18 — The Modbus server answers every request safely and per specification.
Model: Siot/Model/Modbus.lean (PDU.ProcessRequest, Regs). Specification: Siot/Spec/ModbusSpec.lean.
-/
namespace Siot.Modbus
open Siot Siot.Modbus.Spec

/-- Tie A: function codes, exception codes, coil values, quantity limits, the minimum request
length table and the comparisons of ProcessRequest as they are in modbus/*.go right now. -/
theorem gen_modbus_pinned :
    Gen.mbFuncCodeReadCoils = 1 ∧ Gen.mbFuncCodeReadDiscreteInputs = 2 ∧ Gen.mbFuncCodeReadHoldingRegisters = 3 ∧
    Gen.mbFuncCodeReadInputRegisters = 4 ∧ Gen.mbFuncCodeWriteSingleCoil = 5 ∧ Gen.mbFuncCodeWriteSingleRegister = 6 ∧
    Gen.mbFuncCodeWriteMultipleCoils = 15 ∧ Gen.mbFuncCodeWriteMultipleRegisters = 16 ∧
    Gen.mbExcIllegalFunction = 1 ∧ Gen.mbExcIllegalAddress = 2 ∧ Gen.mbExcIllegalValue = 3 ∧
    Gen.mbWriteCoilValueOn = 0xff00 ∧ Gen.mbWriteCoilValueOff = 0 ∧
    Gen.mbmaxReadBits = 2000 ∧ Gen.mbmaxReadRegs = 125 ∧ Gen.mbmaxWriteBits = 1968 ∧ Gen.mbmaxWriteRegs = 123 ∧
    Gen.mbmaxAddress = 65535 ∧
    Gen.mbMinRequestLen = [(1, 5), (2, 5), (3, 5), (4, 5), (5, 5), (6, 5), (15, 7), (16, 8), (22, 7), (23, 12), (24, 3)] ∧
    Gen.mbProcessRequestCmps = ["<1", ">maxReadBits", "==FuncCodeReadDiscreteInputs", "<1", ">maxReadRegs",
      "==FuncCodeReadInputRegisters", "<1", ">maxWriteBits", "==1", "<1", ">maxWriteRegs"] := by
  decide

/-- the model's table is the pinned one -/
theorem minRequestLen_table : ∀ p ∈ Gen.mbMinRequestLen, minRequestLen p.1 = p.2 := by decide

/-- **C18 (main): conformance.** For EVERY register file, function code (0–255 and beyond) and data
bytes: the server's reaction is the one the Modbus specification prescribes (`Spec.respond`) — the
same normal response, the same exception, or no response for a request shorter than its fixed header —
and wherever the specification fixes the register file afterwards, it is that register file. -/
theorem c18_conforms (rs : Regs) (fc : Nat) (data : Bytes) :
    Agree (processRequest rs fc data) (respond rs fc data) := by
  by_cases h1 : fc = 1; · subst h1; exact conforms_readBits rs 1 (Or.inl rfl) data
  by_cases h2 : fc = 2; · subst h2; exact conforms_readBits rs 2 (Or.inr rfl) data
  by_cases h3 : fc = 3; · subst h3; exact conforms_readWords rs 3 (Or.inl rfl) data
  by_cases h4 : fc = 4; · subst h4; exact conforms_readWords rs 4 (Or.inr rfl) data
  by_cases h5 : fc = 5; · subst h5; exact conforms_writeCoil rs data
  by_cases h6 : fc = 6; · subst h6; exact conforms_writeReg rs data
  by_cases h15 : fc = 15; · subst h15; exact conforms_writeCoils rs data
  by_cases h16 : fc = 16; · subst h16; exact conforms_writeRegs rs data
  exact conforms_other rs fc data ⟨h1, h2, h3, h4, h5, h6, h15, h16⟩

/-- **C18 totality.** No request makes the server crash: the outcome is a normal response, an
exception response or "too short" — never a run-time panic (index or slice out of range). -/
theorem c18_total (rs : Regs) (fc : Nat) (data : Bytes) :
    ∀ m, (processRequest rs fc data).1 ≠ .panic m := by
  intro m h
  have := (c18_conforms rs fc data).1
  rw [h] at this
  simp [toResp] at this

/-- "too short" exactly when the data is shorter than the function's fixed header -/
theorem c18_tooShort_iff (rs : Regs) (fc : Nat) (data : Bytes) :
    (processRequest rs fc data).1 = .tooShort ↔ data.length < fixedLen fc := by
  have h := (c18_conforms rs fc data).1
  constructor
  · intro ht
    rw [ht] at h
    simp only [toResp, Option.some.injEq] at h
    unfold respond at h
    by_cases hl : data.length < fixedLen fc
    · exact hl
    · rw [if_neg hl] at h
      exfalso
      revert h
      simp only []
      split <;> (try split) <;> (try split) <;> (try split) <;> (try split) <;> (try split) <;> simp
  · intro hl
    rw [respond_short rs fc data hl] at h
    cases ho : (processRequest rs fc data).1 <;> rw [ho] at h <;> simp [toResp] at h

theorem reqReadBits_regs (rs : Regs) (fc : Nat) (data : Bytes) : (reqReadBits rs fc data).2 = rs := by
  unfold reqReadBits
  split
  · simp only []
    split
    · rfl
    · split
      · rfl
      · split <;> rfl
  · rfl

theorem reqReadWords_regs (rs : Regs) (fc : Nat) (data : Bytes) : (reqReadWords rs fc data).2 = rs := by
  unfold reqReadWords
  split
  · simp only []
    split
    · rfl
    · split
      · rfl
      · split <;> rfl
  · rfl

theorem c18_reads_keep_regs (rs : Regs) (fc : Nat) (hfc : fc = 1 ∨ fc = 2 ∨ fc = 3 ∨ fc = 4) (data : Bytes) :
    (processRequest rs fc data).2 = rs := by
  unfold processRequest
  split
  · rfl
  · rcases hfc with rfl | rfl | rfl | rfl
    · simp [reqReadBits_regs]
    · simp [reqReadBits_regs]
    · simp [reqReadWords_regs]
    · simp [reqReadWords_regs]

/-- **C18: an exception to a read or a single write leaves all registers unchanged** (and reads
never change registers at all). -/
theorem c18_exception_keeps_regs (rs : Regs) (fc : Nat) (data : Bytes)
    (hfc : fc ≠ 15 ∧ fc ≠ 16) (code fc' : Nat)
    (h : (processRequest rs fc data).1 = .exception fc' code) : (processRequest rs fc data).2 = rs := by
  by_cases hr : fc = 1 ∨ fc = 2 ∨ fc = 3 ∨ fc = 4
  · exact c18_reads_keep_regs rs fc hr data
  · unfold processRequest at h ⊢
    split
    · rfl
    · rename_i hl
      rw [if_neg hl] at h
      have n12 : ¬ (fc = 1 ∨ fc = 2) := fun h' => hr (by rcases h' with h' | h' <;> simp [h'])
      have n34 : ¬ (fc = 3 ∨ fc = 4) := fun h' => hr (by rcases h' with h' | h' <;> simp [h'])
      rw [if_neg n12, if_neg n34] at h ⊢
      by_cases h5 : fc = 5
      · rw [if_pos h5] at h ⊢
        unfold reqWriteCoil at h ⊢
        split at h
        · simp only [] at h ⊢
          split at h
          · rename_i hv; rw [if_pos hv]
          · rename_i hv; rw [if_neg hv]
            split at h
            · rfl
            · cases h
        · rfl
      · rw [if_neg h5, if_neg hfc.1] at h ⊢
        by_cases h6 : fc = 6
        · rw [if_pos h6] at h ⊢
          unfold reqWriteReg at h ⊢
          split at h
          · split at h
            · rfl
            · cases h
          · rfl
        · rw [if_neg h6, if_neg hfc.2]

/-! ### what the prescribed responses mean -/

/-- a written register holds the value, every other register is untouched -/
theorem setReg_read (rs : Regs) (a v b : Nat) (ha : a < 65536) (hb : b < 65536)
    (hex : readReg rs a ≠ none) :
    readReg (setReg rs a v) b = if b = a then some v else readReg rs b := by
  induction rs with
  | nil => simp [readReg] at hex
  | cons r rs ih =>
    simp only [setReg]
    by_cases hr : r.addr = a
    · simp only [hr, if_true, readReg, Nat.mod_eq_of_lt hb]
      by_cases hba : b = a
      · simp [hba]
      · have : ¬ a = b := fun h => hba h.symm
        simp [hba, this]
    · simp only [hr, if_false, readReg, Nat.mod_eq_of_lt hb]
      have hex' : readReg rs a ≠ none := by
        simp only [readReg, Nat.mod_eq_of_lt ha, hr, if_false] at hex; exact hex
      by_cases hrb : r.addr = b
      · have : ¬ b = a := fun h => hr (hrb.trans h)
        simp [hrb, this]
      · simp only [hrb, if_false]; exact ih hex'

theorem bits_of_sum (f : Nat → Bool) (i : Nat) (hi : i < 8) :
    ((List.range 8).foldl (fun acc k => acc + if f k then 2 ^ k else 0) 0).testBit i = f i := by
  have : i = 0 ∨ i = 1 ∨ i = 2 ∨ i = 3 ∨ i = 4 ∨ i = 5 ∨ i = 6 ∨ i = 7 := by omega
  simp only [List.range_succ, List.range_zero, List.nil_append, List.cons_append, List.foldl_cons, List.foldl_nil]
  rcases this with rfl | rfl | rfl | rfl | rfl | rfl | rfl | rfl <;>
    (generalize f 0 = b0
     generalize f 1 = b1
     generalize f 2 = b2
     generalize f 3 = b3
     generalize f 4 = b4
     generalize f 5 = b5
     generalize f 6 = b6
     generalize f 7 = b7
     cases b0 <;> cases b1 <;> cases b2 <;> cases b3 <;> cases b4 <;> cases b5 <;> cases b6 <;> cases b7 <;> decide)

/-- bit `i` of status byte `j` is coil `8 j + i` of the addressed range: reads report exactly the
addressed coils, zero padded -/
theorem statusByte_bit (bits : List Bool) (j i : Nat) (hi : i < 8) :
    (statusByte bits j).testBit i = bits.getD (8 * j + i) false :=
  bits_of_sum (fun k => bits.getD (8 * j + k) false) i hi

/-- non-vacuity: a 12-coil read over a 2-register map, and a register read crossing the map -/
example :
    let rs : Regs := [⟨0, 0xA5F0, fun _ => true⟩, ⟨1, 0x0003, fun _ => true⟩]
    (processRequest rs 1 [0, 4, 0, 12]).1 = .normal 1 [2, 0x5f, 0x0a] ∧
    (processRequest rs 3 [0, 1, 0, 2]).1 = .exception 131 2 ∧
    (processRequest rs 3 [0, 0, 0x80, 0]).1 = .exception 131 3 := by
  decide

end Siot.Modbus
