import Siot.Lemmas.ConfigTotal
import Siot.Gen.Config
/-
C11 — Decoding arbitrary points never crashes.
Model: Siot/Model/Config.lean (Decode / GroupedPoints.SetValue / setVal / MergePoints with every
`reflect` indexing operation checked).
-/
namespace Siot.Config
open Siot

/-- Tie A: the limits and the structure of the grouping step of Decode as they are in data/*.go now -/
theorem gen_config_pinned :
    Gen.cfgMaxSafeInteger = 9007199254740991 ∧ Gen.cfgMaxStructureSize = 1000 ∧
    Gen.cfgUpdateKeyIndexCmps = ["!=\"\"", "!=nil", "<0", ">g.KeyMaxInt", "!=1"] ∧
    Gen.cfgSetValCmps = ["==1", "==reflect.Pointer", "<0"] := by
  decide

theorem setValue_no_panic (N : Num) (g : Group) (hg : GInv g) (ty : FieldTy) (v : FVal) (ht : FTyped ty v) (m : String) :
    (setValue N g ty v).2 ≠ .panic m := by
  cases ty <;> cases v <;> simp only [FTyped] at ht <;> simp only [setValue]
  case scalar.scalar k x => exact setScalars_no_panic N k _ _ m
  case ptr.ptr k x => exact setPtrs_no_panic N k _ _ m
  case slice.slice k vs =>
    split
    · simp
    · rename_i hk
      split
      · simp
      · have hne : g.keyNotIndex = [] := by simpa using hk
        have hidx := hg.idx hne
        have hlow := hg.low
        generalize hvs' : (if g.keyMaxInt > (vs.length : Int) - 1 then vs ++ List.replicate ((g.keyMaxInt + 1).toNat - vs.length) (zeroS k) else vs) = vs'
        have hlen : g.keyMaxInt < vs'.length := by
          rw [← hvs']
          split
          · simp only [List.length_append, List.length_replicate]; omega
          · omega
        have := setIndexed_ok N k g.keyMaxInt g.points vs' [] hidx hlen m
        cases hr : setIndexed N k g.points vs' [] with
        | mk a r =>
          obtain ⟨del, st⟩ := r
          rw [hr] at this
          cases st <;> simp_all
  case array.array n k vs =>
    split
    · simp
    · rename_i hk
      split
      · simp
      · split
        · simp
        · rename_i hn
          have hne : g.keyNotIndex = [] := by simpa using hk
          exact setIndexed_ok N k g.keyMaxInt g.points vs [] (hg.idx hne) (by omega) m
  case map.map k kvs =>
    split
    · simp
    · exact setMap_no_panic N k _ _ m
  case struct.struct fs vs => exact setStruct_no_panic N _ fs vs m ht
  case ptrStruct.ptrStruct fs vo =>
    split
    · simp
    · cases vo with
      | none => exact setStruct_no_panic N _ fs _ m (by simp)
      | some vs => exact setStruct_no_panic N _ fs vs m ht

/-- the fields of a value have the shapes their types prescribe -/
def Typed : Ty → List FVal → Prop
  | [], [] => True
  | f :: fs, x :: xs => FTyped f.ty x ∧ Typed fs xs
  | _, _ => False

theorem decodeFields_no_panic (N : Num) (ne : NodeEdge) : ∀ (T : Ty) (xs : List FVal), Typed T xs →
    (decodeFields N ne T xs).2.2 = none := by
  intro T
  induction T with
  | nil => intro xs _; cases xs <;> rfl
  | cons f fs ih =>
    intro xs ht
    cases xs with
    | nil => simp [Typed] at ht
    | cons x xs =>
      obtain ⟨hx, hrest⟩ := ht
      simp only [decodeFields]
      cases hg : group f.ptype (if f.edge then ne.edgePoints else ne.points) with
      | none => simp only []; exact ih xs hrest
      | some g =>
        simp only []
        have hnp := setValue_no_panic N g (group_inv _ _ g hg) f.ty x hx
        cases hr : setValue N g f.ty x with
        | mk x' st =>
          rw [hr] at hnp
          cases st with
          | ok => simp only []; exact ih xs hrest
          | err => simp only []; exact ih xs hrest
          | panic m => exact absurd rfl (hnp m)

/-- **C11 (main): decoding never panics.** For every supported configuration type `T`, every value
of it, and EVERY list of points and edge points — any types, keys that are empty, negative, huge or
non-numeric, values of any bit pattern (NaN, infinities, out of range), any tombstone counts — `Decode`
either updates the value or reports an error. No `reflect` indexing or assignment goes out of range.
The numeric conversions are arbitrary (`N`), so the claim does not depend on how Go converts
out-of-range floats. -/
theorem c11_never_panics (N : Num) (T : Ty) (ne : NodeEdge) (v : Val) (ht : Typed T v.fields) :
    (decode N T ne v).panic = none := by
  unfold decode
  have := decodeFields_no_panic N ne T v.fields ht
  cases hd : decodeFields N ne T v.fields with
  | mk fs r =>
    obtain ⟨e, pm⟩ := r
    rw [hd] at this
    simpa using this

/-- the same for `MergePoints` / `MergeEdgePoints` -/
theorem c11_merge_never_panics (N : Num) (T : Ty) (id : Bytes) (pts : List Point) (v : Val) (ht : Typed T v.fields) :
    ∀ d, mergePoints N T id pts v = some d → d.panic = none := by
  intro d h
  unfold mergePoints at h
  split at h
  · cases h
  · injection h with h; rw [← h]; exact c11_never_panics N T _ v ht

/-- **C11: undeclared point types are ignored.** Removing every point whose type no field of `T`
declares changes neither the outcome nor the resulting value. -/
theorem c11_undeclared_ignored (N : Num) (T : Ty) (ne : NodeEdge) (v : Val) :
    let declared := fun (edge : Bool) (p : Point) => T.any (fun f => f.edge == edge && f.ptype == p.type)
    decode N T { ne with points := ne.points.filter (declared false), edgePoints := ne.edgePoints.filter (declared true) } v
      = decode N T ne v := by
  intro declared
  -- the group of a declared type only looks at points of that type
  have key : ∀ (fs : List Field), (∀ f ∈ fs, f ∈ T) → ∀ xs,
      decodeFields N { ne with points := ne.points.filter (declared false), edgePoints := ne.edgePoints.filter (declared true) } fs xs
        = decodeFields N ne fs xs := by
    intro fs
    induction fs with
    | nil => intro _ xs; rfl
    | cons f fs ih =>
      intro hf xs
      cases xs with
      | nil => rfl
      | cons x xs =>
        have hfT : f ∈ T := hf f (by simp)
        have hg : group f.ptype (if f.edge then ne.edgePoints.filter (declared true) else ne.points.filter (declared false))
            = group f.ptype (if f.edge then ne.edgePoints else ne.points) := by
          have hfilt : ∀ (edge : Bool) (ps : List Point), f.edge = edge →
              (ps.filter (declared edge)).filter (fun p => p.type == f.ptype) = ps.filter (fun p => p.type == f.ptype) := by
            intro edge ps he
            rw [List.filter_filter]
            apply List.filter_congr
            intro p _
            by_cases hp : (p.type == f.ptype) = true
            · have : declared edge p = true := by
                simp only [declared, List.any_eq_true]
                refine ⟨f, hfT, ?_⟩
                have : p.type = f.ptype := by simpa using hp
                simp [he, this]
              simp [hp, this]
            · simp [hp]
          cases he : f.edge with
          | true => simp only [if_true, group_eq, hfilt true ne.edgePoints he]
          | false => simp only [Bool.false_eq_true, if_false, group_eq, hfilt false ne.points he]
        simp only [decodeFields]
        rw [hg, ih (fun g hg' => hf g (by simp [hg'])) xs]
  unfold decode
  rw [key T (fun f h => h) v.fields]

/-- non-vacuity of `c11_never_panics`: a type with an array, a slice, a map and a flat struct, and a value of that type
    (the points decoded into it are arbitrary: the theorem takes any) -/
example :
    let T : Ty := [⟨false, [97], .array 2 (.int 32)⟩, ⟨false, [98], .slice .str⟩, ⟨false, [99], .map .f64⟩,
                   ⟨true, [100], .struct [([107], .bool), ([108], .uint 8)]⟩, ⟨false, [101], .ptrStruct [([107], .str)]⟩]
    let v : Val := { id := [1], fields := [.array [.i 1, .i 2], .slice [], .map [([107], .f 0)], .struct [.b true, .u 3], .ptrStruct none] }
    Typed T v.fields := by
  intro T v
  simp [Typed, FTyped, T, v]

end Siot.Config
