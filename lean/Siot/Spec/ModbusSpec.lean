import Siot.Model.Modbus
/-
Specification of a Modbus server's reaction to a request PDU, written from the
"MODBUS Application Protocol Specification V1.1b3" (section 6 function descriptions and the
state diagrams: quantity limits 2000 / 125 / 1968 / 123, byte counts, echo formats, exception codes
01 illegal function, 02 illegal data address, 03 illegal data value), independently of the shape of
`processRequest`. The register file interface (`readReg`, `readCoil`, coil aliasing `num / 16`,
validators) is the repository's documented register model and is shared with the model.
-/
namespace Siot.Modbus.Spec
open Siot Siot.Modbus

inductive Resp where
  | normal (fc : Nat) (data : Bytes)
  | exception (fc : Nat) (code : Nat)
  | none                                  -- malformed (shorter than the fixed header): no response
  deriving DecidableEq, Repr

def allSome {α : Type} : List (Option α) → Option (List α)
  | [] => some []
  | none :: _ => Option.none
  | some a :: rest => (allSome rest).map (a :: ·)

/-- the register file after writing `v` to the (existing, accepting) register `a`: that register
    holds `v`, every other register is untouched -/
def setReg (rs : Regs) (a v : Nat) : Regs :=
  match rs with
  | [] => []
  | r :: rest => if r.addr = a then { r with val := v } :: rest else r :: setReg rest a v

/-- validator of register `a` (first match), `none` when the register does not exist -/
def validatorOf : Regs → Nat → Option (Nat → Bool)
  | [], _ => Option.none
  | r :: rest, a => if r.addr = a then some r.valid else validatorOf rest a

structure Result where
  resp : Resp
  regs : Option Regs        -- `some`: prescribed register file; `none`: left open by the specification

/-- length of the fixed part of a request (after the function code) -/
def fixedLen (fc : Nat) : Nat :=
  match fc with
  | 1 | 2 | 3 | 4 | 5 | 6 => 4 | 15 => 6 | 16 => 7 | 22 => 6 | 23 => 11 | 24 => 2 | _ => 0

def respond (rs : Regs) (fc : Nat) (data : Bytes) : Result :=
  if data.length < fixedLen fc then ⟨.none, some rs⟩
  else
  let w (i : Nat) : Nat := (data.getD i 0).toNat * 256 + (data.getD (i + 1) 0).toNat
  let address := w 0
  let quantity := w 2
  match fc with
  | 1 | 2 =>
    if quantity < 1 ∨ 2000 < quantity then ⟨.exception (fc + 128) 3, some rs⟩
    else if 65536 < address + quantity then ⟨.exception (fc + 128) 2, some rs⟩
    else match allSome ((List.range quantity).map (fun i => readCoil rs (address + i))) with
      | Option.none => ⟨.exception (fc + 128) 2, some rs⟩
      | some bits =>
        let n := (quantity + 7) / 8
        ⟨.normal fc (u8 n :: (List.range n).map (fun j => u8 (statusByte bits j))), some rs⟩
  | 3 | 4 =>
    if quantity < 1 ∨ 125 < quantity then ⟨.exception (fc + 128) 3, some rs⟩
    else if 65536 < address + quantity then ⟨.exception (fc + 128) 2, some rs⟩
    else match allSome ((List.range quantity).map (fun i => readReg rs (address + i))) with
      | Option.none => ⟨.exception (fc + 128) 2, some rs⟩
      | some vals => ⟨.normal fc (u8 (2 * quantity) :: vals.flatMap (fun v => [u8 (v / 256), u8 (v % 256)])), some rs⟩
  | 5 =>
    let v := quantity
    if v ≠ 0 ∧ v ≠ 0xff00 then ⟨.exception 133 3, some rs⟩
    else match readReg rs (address / 16), validatorOf rs (address / 16) with
      | some rv, some ok =>
        let nv := setBit rv (address % 16) (v == 0xff00)
        if ok nv then ⟨.normal 5 data, some (setReg rs (address / 16) nv)⟩ else ⟨.exception 133 3, some rs⟩
      | _, _ => ⟨.exception 133 2, some rs⟩
  | 6 =>
    let v := quantity
    match validatorOf rs address with
    | some ok => if ok v then ⟨.normal 6 data, some (setReg rs address v)⟩ else ⟨.exception 134 3, some rs⟩
    | Option.none => ⟨.exception 134 2, some rs⟩
  | 15 =>
    let n := (quantity + 7) / 8
    if quantity < 1 ∨ 1968 < quantity ∨ (data.getD 4 0).toNat ≠ n ∨ data.length ≠ 5 + n then ⟨.exception 143 3, some rs⟩
    else if 65536 < address + quantity then ⟨.exception 143 2, some rs⟩
    else
      -- all addressed coils written in order; an exception on the way leaves the outcome open
      let r := writeBits rs address (data.drop 5) 0 quantity
      match r.1 with
      | Option.none => ⟨.normal 15 (data.take 4), some r.2⟩
      | some e => ⟨.exception 143 e, Option.none⟩
  | 16 =>
    if quantity < 1 ∨ 123 < quantity ∨ (data.getD 4 0).toNat ≠ quantity * 2 ∨ data.length ≠ 5 + quantity * 2 then ⟨.exception 144 3, some rs⟩
    else if 65536 < address + quantity then ⟨.exception 144 2, some rs⟩
    else
      let r := writeWords rs address (data.drop 5) 0 quantity
      match r.1 with
      | Option.none => ⟨.normal 16 (data.take 4), some r.2⟩
      | some e => ⟨.exception 144 e, Option.none⟩
  | _ => ⟨.exception (fc ||| 128) 1, some rs⟩

end Siot.Modbus.Spec
