import Siot.Model.Schedule
/-
Specification of a schedule window (property C14), written from the property text:
"active at t exactly when there is a calendar day D (UTC) allowed by the weekday and date
filters such that t lies in the half-open window that starts at the start time on D and ends
at the end time (on D if the end is after the start, otherwise on the following day)".
-/
namespace Siot.Schedule

def startOf (D : Int) (sh sm : Nat) : Int := D * dayNs + (sh : Int) * hourNs + (sm : Int) * minNs

def endOf (D : Int) (sh sm eh em : Nat) : Int :=
  if D * dayNs + (sh : Int) * hourNs + (sm : Int) * minNs < D * dayNs + (eh : Int) * hourNs + (em : Int) * minNs
  then D * dayNs + (eh : Int) * hourNs + (em : Int) * minNs
  else D * dayNs + (eh : Int) * hourNs + (em : Int) * minNs + dayNs

def allowed (wds : List Int) (dates : List Bytes) (D : Int) : Prop :=
  (wds = [] ∨ weekday D ∈ wds) ∧ (dates = [] ∨ ∃ d ∈ dates, parseDate d = some (civil D))

instance (wds : List Int) (dates : List Bytes) (D : Int) : Decidable (allowed wds dates D) := by
  unfold allowed; infer_instance

def inWindow (t D : Int) (sh sm eh em : Nat) : Prop :=
  startOf D sh sm ≤ t ∧ t < endOf D sh sm eh em

instance : Decidable (inWindow t D sh sm eh em) := by unfold inWindow; infer_instance

/-- the specification: quantifies over ALL days -/
def window (wds : List Int) (dates : List Bytes) (sh sm eh em : Nat) (t : Int) : Prop :=
  ∃ D : Int, allowed wds dates D ∧ inWindow t D sh sm eh em

/-- executable form used by the driver as oracle on the implementation's answers:
    tries a superset of the days that can matter (proved equivalent to `window` in Props/C14) -/
def windowExec (wds : List Int) (dates : List Bytes) (sh sm eh em : Nat) (t : Int) : Bool :=
  let D0 := dayOf t
  [D0 - 2, D0 - 1, D0, D0 + 1].any fun D =>
    decide (allowed wds dates D) && decide (inWindow t D sh sm eh em)

end Siot.Schedule
