import Siot.Basic
import Siot.Props.C14
import Siot.Props.C16
import Siot.Props.C17
import Siot.Props.C18
import Siot.Props.C19
import Siot.Props.C12
