import Siot.Basic
import Siot.Props.C14
