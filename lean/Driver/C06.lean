import Driver.Store
import Siot.Model.Rebroadcast
namespace Driver.C06
open Siot Siot.Store Driver Driver.StoreD

def idStr (b : Bytes) : String := String.mk (b.map (fun c => Char.ofNat c.toNat))

/-- the instance the harness starts: root sentinel → "R" -/
def st0 : St := { root := strBytes "R", edges := [⟨rootS, strBytes "R", strBytes "device", 0⟩] }

def counts (l : List String) : List String :=
  let s := sortS l
  (s.eraseDups).map (fun x => s!"{x}*{(s.filter (· == x)).length}")

/-- independent oracle: upward closure by fixpoint iteration over an edge list (sets, no recursion on paths) -/
def closure (es : List Edge) (n : Bytes) : List Bytes :=
  let step := fun (acc : List Bytes) =>
    (acc ++ (es.filter (fun e => acc.contains e.down)).map (·.up)).eraseDups
  (List.range (es.length + 1)).foldl (fun acc _ => step acc) [n]

def handle (args : List String) (impl : String) : Verdict :=
  match args, impl.splitOn " ## " with
  | [c], [resS, subsS] =>
    match c.splitOn "|" with
    | [setup, fin] =>
      match (if setup == "-" then some [] else parseOps setup), parseOps fin with
      | some sops, some [fop] =>
        let (st1, rs1) := runOps st0 sops
        let (st2, rs2) := runOps st1 [fop]
        let accepted := rs2 == ["ok"]
        let implAccepted := (resS.splitOn ",").getLast? == some "ok"
        let (subs, want) : List String × List String := match fop with
          | .np id _ =>
            ((pubsNode evenVal st2 id).map (fun a => s!"up.{idStr a}.{idStr id}"),
             (closure (liveEdges evenVal st2) id).map (fun a => s!"up.{idStr a}.{idStr id}"))
          | .ep id par _ =>
            let par := if par.isEmpty then rootS else par
            ((pubsEdge st2 id).map (fun a => s!"up.{idStr a}.{idStr id}.{idStr par}"),
             (closure st2.edges id).map (fun a => s!"up.{idStr a}.{idStr id}.{idStr par}"))
          | .up _ _ => ([], [])
        let m := ",".intercalate (rs1 ++ rs2) ++ " ## " ++ (if accepted then joinOr (counts subs) "," else "-")
        -- specification on the implementation's observation: the set of subjects (payload intact) is
        -- exactly the closure; nothing at all for a refused write
        let implSubs := (parseList subsS).map (fun s => (s.splitOn "*").headD "")
        let ok := if implAccepted then sortS implSubs == sortS want else implSubs.isEmpty
        let missing := want.any (fun w => !implSubs.contains w)
        let payload := implSubs.any (fun s => (s.splitOn "~").length > 1)
        { model := m, spec := some ok,
          note := if ok then "" else if payload then "class=payload-differs" else if !implAccepted then "class=refused-write-rebroadcast"
            else if missing then "class=ancestor-missed" else "class=leak-to-non-ancestor" }
      | _, _ => bad "C06 ops"
    | _ => bad "C06 case"
  | _, _ => bad "C06 parse"

end Driver.C06
