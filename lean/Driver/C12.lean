import Driver.Points
import Siot.Model.Pb
namespace Driver.C12
open Siot Siot.Proto3 Siot.Pb Driver

def widen32 (bits : Nat) : Nat := (Float32.ofBits (UInt32.ofNat bits)).toFloat.toBits.toNat

def isNaN64 (bits : Nat) : Bool := (Float.ofBits (UInt64.ofNat bits)).isNaN

/-- model point → canonical text (UnixNano wraps like Go's int64 arithmetic) -/
def ptOfModel (p : Pb.Point) : Pt :=
  { type := p.type, key := p.key, value := if isNaN64 p.value then none else some (UInt64.ofNat p.value), text := p.text,
    time := toInt64 (ofInt64 (p.sec * 1000000000 + p.nsec)), tomb := p.tomb, origin := p.origin, data := p.data }

def modelOfPt (p : Pt) : Pb.Point :=
  { type := p.type, key := p.key, value := match p.value with | some v => v.toNat | none => 0x7ff8000000000001,
    text := p.text, sec := p.time / 1000000000, nsec := p.time % 1000000000, tomb := p.tomb, origin := p.origin, data := p.data }

def ptsOut (ps : List Pb.Point) : String := ptsStr (ps.map ptOfModel)

def nodeOut (n : Pb.Node) : String :=
  "~".intercalate [toHex n.id, toHex n.type, toString n.hash, toHex n.parent, ptsOut n.points, ptsOut n.edgePoints]

def nodesOut (ns : List Pb.Node) : String := if ns.isEmpty then "-" else "+".intercalate (ns.map nodeOut)

def parseNode (s : String) : Option Pb.Node :=
  match s.splitOn "~" with
  | [i, t, h, p, ps, es] => do
    pure { id := ← ofHex i, type := ← ofHex t, hash := ← h.toNat?, parent := ← ofHex p,
           points := (← parsePts ps).map modelOfPt, edgePoints := (← parsePts es).map modelOfPt }
  | _ => none

def parseNodes (s : String) : Option (List Pb.Node) :=
  if s == "-" then some [] else (s.splitOn "+").mapM parseNode

def resOut {α : Type} (f : α → String) : Res α → String
  | .ok a => "ok " ++ f a
  | .err _ => "err"
  | .panic m => "PANIC " ++ m

def hasNaN (ps : List Pt) : Bool := ps.any (fun p => p.value.isNone)

def handle (args : List String) (impl : String) : Verdict :=
  let cls (ok : Bool) (c : String) := if ok then "" else "class=" ++ c
  match args with
  | ["ep", pts] =>
    match parsePts pts with
    | some ps =>
      let utf8ok := ps.all (fun p => validUtf8 p.type && validUtf8 p.key && validUtf8 p.text && validUtf8 p.origin)
      let m := match mapRes toPb (ps.map modelOfPt) with
        | .ok qs => toHex (encPoints qs) | _ => "err"
      -- round trip: decoding what the implementation produced gives the points back
      let tombOk := ps.all (fun p => -2147483648 ≤ p.tomb && p.tomb ≤ 2147483647)
      let back := match ofHex impl with
        | some b => (match pbDecodePoints b with | .ok qs => some (ptsOut qs) | _ => none)
        | none => none
      let inScope := utf8ok && tombOk && !hasNaN ps
      -- both sides in the form the implementation prints (UnixNano wraps for times outside the int64 range, e.g. the zero time)
      let ok := back == some (ptsOut (ps.map modelOfPt))
      { model := if utf8ok && !hasNaN ps then m else impl, spec := if inScope then some ok else none, inScope := utf8ok && !hasNaN ps,
        note := cls (ok || !inScope) "point-roundtrip" }
    | none => bad "C12 ep"
  | ["en", nd] =>
    match parseNode nd with
    | some n =>
      let m := match toPbNode n with | .ok q => toHex (encNode q) | _ => "err"
      let scope := (n.points ++ n.edgePoints).all (fun p => utf8Valid p.type && utf8Valid p.key && utf8Valid p.text && utf8Valid p.origin && !isNaN64 p.value
                      && decide (-2147483648 ≤ p.tomb) && decide (p.tomb ≤ 2147483647)) && utf8Valid n.id && utf8Valid n.type && utf8Valid n.parent
      let back := match ofHex impl with
        | some b => (match pbDecodeNode b with | .ok q => some (nodeOut q) | _ => none)
        | none => none
      let ok := back == some (nodeOut n)
      { model := if scope then m else impl, spec := if scope then some ok else none, inScope := scope, note := cls (ok || !scope) "node-roundtrip" }
    | none => bad "C12 en"
  | ["eN", nds] =>
    match parseNodes nds with
    | some ns =>
      let scope := ns.all (fun n => (n.points ++ n.edgePoints).all (fun p => utf8Valid p.type && utf8Valid p.key && utf8Valid p.text && utf8Valid p.origin && !isNaN64 p.value
                      && decide (-2147483648 ≤ p.tomb) && decide (p.tomb ≤ 2147483647)) && utf8Valid n.id && utf8Valid n.type && utf8Valid n.parent)
      let m := match mapRes toPbNode ns with | .ok qs => toHex (encNodes qs) | _ => "err"
      let back := match ofHex impl with
        | some b => (match pbDecodeNodes false b with | .ok qs => some (nodesOut qs) | _ => none)
        | none => none
      let ok := back == some (nodesOut ns)
      { model := if scope then m else impl, spec := if scope then some ok else none, inScope := scope, note := cls (ok || !scope) "nodes-roundtrip" }
    | none => bad "C12 eN"
  | [k, h] =>
    match ofHex h with
    | some b =>
      let m := match k with
        | "dp" => resOut ptsOut (pbDecodePoints b)
        | "dn" => resOut nodeOut (pbDecodeNode b)
        | "dq" => resOut nodeOut (pbDecodeNodeRequest b)
        | "dN" => resOut nodesOut (pbDecodeNodes false b)
        | "dQ" => resOut nodesOut (pbDecodeNodes true b)
        | "ds" => resOut ptsOut (pbDecodeSerialPoints widen32 b)
        | "hr" =>
          (match decodeHr widen32 0 b with
           | .ok ps =>
             let zeroStart := toInt64 (leNat ((b.take 40).drop 32)) == 0
             "ok " ++ (if ps.isEmpty then "-" else ";".intercalate (ps.map (fun p =>
               let s := (ptOfModel p).str
               if zeroStart then ",".intercalate (((s.splitOn ",").zipIdx).map (fun (x, i) => if i == 4 then "now" else x)) else s)))
           | .err _ => "err" | .panic x => "PANIC " ++ x)
        | _ => "BADCASE kind"
      -- specification: arbitrary bytes give a value or an error, never a crash
      let ok := !impl.startsWith "PANIC" && !impl.startsWith "HANG"
      { model := m, spec := some ok, note := cls ok "decoder-crash" }
    | none => bad "C12 hex"
  | ["sj", kind, sh] =>
    match ofHex sh with
    | some s =>
      let r := match kind with
        | "np" => parseSubject 2 [1] s
        | "ep" => parseSubject 3 [1, 2] s
        | "un" => parseSubject 3 [1, 2] s
        | _ => parseSubject 4 [1, 2, 3] s
      let ok := !impl.startsWith "PANIC"
      { model := resOut (fun cs => ",".intercalate (cs.map toHex)) r, spec := some ok, note := cls ok "decoder-crash" }
    | none => bad "C12 sj"
  | _ => bad "C12 arity"

end Driver.C12
