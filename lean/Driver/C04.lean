import Driver.Store
namespace Driver.C04
open Siot Siot.Store Driver Driver.StoreD

def handle (args : List String) (impl : String) : Verdict :=
  match args with
  | [c] =>
    match c.splitOn "|", impl.splitOn " ## " with
    | [kill, opsS], [d0, acksS, flags, dump] =>
      match parseOps opsS with
      | some ops =>
        let acks := if acksS == "-" then [] else acksS.splitOn ","
        let k := acks.length
        let flagsOk := flags == "open=ok root=same key=same post=ok"
        match parseDump dump with
        | none => { model := "BAD DUMP", spec := some false, note := "class=store-does-not-reopen" }
        | some implSt =>
          let consistent := hashInv implSt
          if kill.startsWith "d" then
            match parseDump d0 with
            | some st0 =>
              -- the two states the recovered file may show: all acknowledged batches, with or without the one in flight
              let (sk, rk) := runOps st0 (ops.take k)
              let (sk1, _) := runOps st0 (ops.take (k + 1))
              let acksModel := ",".intercalate rk
              let cand := if dumpStr sk1 == dump then sk1 else sk
              let m := d0 ++ " ## " ++ (if k == 0 then "-" else acksModel) ++ " ## open=ok root=same key=same post=ok ## " ++ dumpStr cand
              let atomic := dumpStr sk == dump || dumpStr sk1 == dump
              let ok := flagsOk && consistent && atomic
              { model := m, spec := some ok,
                note := if ok then (if dumpStr sk1 == dump && dumpStr sk != dump then "info=in-flight-batch-committed" else if k < ops.length then "info=in-flight-batch-absent" else "info=all-done")
                  else if !flagsOk then "class=store-does-not-reopen" else if !atomic then "class=batch-torn-or-acknowledged-write-lost"
                  else "class=hashes-out-of-step" }
            | none => bad "C04 d0"
          else
            -- death during initialisation: the file opens, carries root R and a key, is consistent and usable;
            -- every acknowledged batch of a writer that got that far is present (the state is a prefix state
            -- of SOME completed initialisation, which only the implementation's dump tells)
            let ok := flagsOk && consistent
            { model := if ok then impl else "violation", spec := some ok,
              note := if ok then "" else if !flagsOk then "class=store-does-not-reopen" else "class=hashes-out-of-step" }
      | none => bad "C04 ops"
    | _, _ => bad "C04 parse"
  | _ => bad "C04 arity"

end Driver.C04
