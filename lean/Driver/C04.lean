import Driver.Store
namespace Driver.C04
open Siot Siot.Store Driver Driver.StoreD

/-- a file that went through first-time initialisation once: exactly one root edge root→R and nothing else but (at
    most one) admin user below R. (An image taken after the root edge's transaction and before the admin user's
    recovers WITHOUT the admin user, for good — the property does not speak about that user, so it is not judged.) -/
def freshShape (st : St) : Bool :=
  (st.edges.filter (fun e => e.up == rootS)).length == 1 &&
    (st.edges.filter (fun e => e.up == rootS && e.down == strBytes "R")).length == 1 && st.root == strBytes "R" &&
    (st.edges.filter (fun e => e.up != rootS)).all (fun e => e.up == strBytes "R" && e.typ == strBytes "user") &&
    (st.edges.filter (fun e => e.up != rootS)).length ≤ 1

/-- snapshot cases: crash images taken at every row change, each re-opened; entry = k %% flags %% dump -/
def handleSnap (opsS : String) (impl : String) : Verdict :=
  match impl.splitOn " ## " with
  | ["S", d0, acksS, _n, entriesS] =>
    match parseOps opsS, parseDump d0 with
    | some ops, some st0 =>
      let acks := if acksS == "-" then [] else acksS.splitOn ","
      let modelAcks := (runOps st0 ops).2
      let entries := if entriesS == "" || entriesS == "-" then [] else entriesS.splitOn " @@ "
      let judge := fun (e : String) => match e.splitOn "%%" with
        | [kS, flags, dump] =>
          let flagsOk := flags == "open=ok root=same key=same post=ok"
          (match kS.toInt?, parseDump dump with
           | some k, some implSt =>
             if !flagsOk then "class=store-does-not-reopen"
             else if !hashInv implSt then "class=hashes-out-of-step"
             else if k < 0 then (if freshShape implSt then "" else "class=initialisation-not-atomic")
             else
               let sk := (runOps st0 (ops.take k.toNat)).1
               let sk1 := (runOps st0 (ops.take (k.toNat + 1))).1
               if dumpStr sk == dump || dumpStr sk1 == dump then "" else "class=batch-torn-or-acknowledged-write-lost"
           | _, _ => "class=store-does-not-reopen")
        | _ => "class=store-does-not-reopen"
      let bad := (entries.map judge).filter (· != "")
      let acksOk := acks == modelAcks
      let ok := bad.isEmpty && acksOk && !entries.isEmpty
      { model := if ok then impl else "S ## " ++ d0 ++ " ## " ++ ",".intercalate modelAcks ++ " ## every image recovers to a prefix state",
        spec := some ok,
        note := if ok then s!"info=images-distinct-{entries.length}" else if !acksOk then "class=model-disagrees-on-acceptance"
          else bad.headD "class=no-images" }
    | _, _ => bad "C04 snap parse"
  | _ => bad "C04 snap obs"

def handle (args : List String) (impl : String) : Verdict :=
  match args with
  | [c] =>
    if c.startsWith "s|" then handleSnap (c.drop 2).toString impl else
    match c.splitOn "|", impl.splitOn " ## " with
    | [kill, opsS], [d0, acksS, flags, dump] =>
      match parseOps opsS with
      | some ops =>
        let acks := if acksS == "-" then [] else acksS.splitOn ","
        let k := acks.length
        let flagsOk := flags == "open=ok root=same key=same post=ok"
        match parseDump dump with
        | none => { model := "BAD DUMP", spec := some false, note := "class=store-does-not-reopen" }
        | some implSt =>
          let consistent := hashInv implSt
          if kill.startsWith "d" then
            match parseDump d0 with
            | some st0 =>
              -- the two states the recovered file may show: all acknowledged batches, with or without the one in flight
              let (sk, rk) := runOps st0 (ops.take k)
              let (sk1, _) := runOps st0 (ops.take (k + 1))
              let acksModel := ",".intercalate rk
              let cand := if dumpStr sk1 == dump then sk1 else sk
              let m := d0 ++ " ## " ++ (if k == 0 then "-" else acksModel) ++ " ## open=ok root=same key=same post=ok ## " ++ dumpStr cand
              let atomic := dumpStr sk == dump || dumpStr sk1 == dump
              let ok := flagsOk && consistent && atomic
              { model := m, spec := some ok,
                note := if ok then (if dumpStr sk1 == dump && dumpStr sk != dump then "info=in-flight-batch-committed" else if k < ops.length then "info=in-flight-batch-absent" else "info=all-done")
                  else if !flagsOk then "class=store-does-not-reopen" else if !atomic then "class=batch-torn-or-acknowledged-write-lost"
                  else "class=hashes-out-of-step" }
            | none => bad "C04 d0"
          else
            -- death during initialisation: the file opens, carries root R and a key, is consistent and usable;
            -- every acknowledged batch of a writer that got that far is present (the state is a prefix state
            -- of SOME completed initialisation, which only the implementation's dump tells)
            let ok := flagsOk && consistent
            { model := if ok then impl else "violation", spec := some ok,
              note := if ok then "" else if !flagsOk then "class=store-does-not-reopen" else "class=hashes-out-of-step" }
      | none => bad "C04 ops"
    | _, _ => bad "C04 parse"
  | _ => bad "C04 arity"

end Driver.C04
