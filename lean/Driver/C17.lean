import Driver.Points
import Siot.Model.Serial
import Siot.Lemmas.SubjectSafe
namespace Driver.C17
open Siot Siot.Serial Siot.Crc16 Driver

def decStr (d : Bytes) : String :=
  match decode d with
  | .ok r => s!"ok {r.seq.toNat} {toHex r.subject} {toHex r.payload}"
  | .err e => "err " ++ e
  | .panic m => "PANIC " ++ m

def xorBytes : Bytes → Bytes → Bytes
  | a :: as, b :: bs => (a ^^^ b) :: xorBytes as bs
  | as, [] => as
  | [], _ => []

def popcount (bs : List Bool) : Nat := (bs.filter id).length

/-- length of the span from the first to the last set bit (0 when none) -/
def burstLen (bs : List Bool) : Nat :=
  let t := (bs.dropWhile (!·)).reverse.dropWhile (!·)
  t.length

def handle (args : List String) (impl : String) : Verdict :=
  match args with
  | ["crc", h] =>
    match ofHex h with
    | some b => { model := toString (crc b) }
    | none => bad "C17 crc"
  | ["dec", h] =>
    match ofHex h with
    | some b => { model := decStr b }
    | none => bad "C17 dec"
  | ["det", p, e] =>
    match ofHex p, ofHex e with
    | some p, some e =>
      let d := xorBytes p e
      let m := decStr d
      let ebits := bitsOf e
      let w := popcount ebits
      let valid := match decode p with | .ok r => r.subject != logSubject | _ => false
      let subj' := trimNul ((d.drop 1).take 16)
      let guaranteed := valid && w > 0 && (w ≤ 2 || burstLen ebits ≤ 16) && p.length * 8 < 32767
      if guaranteed then
        if subj' == logSubject then
          -- by theorem c17_subject_safe this can only happen when the subject is not SubjectSafe
          { model := m, spec := some false,
            note := if SubjectSafe (field p) then "class=safe-subject-became-log" else "class=burst-rewrites-subject-to-log" }
        else
          { model := m, spec := some (impl.startsWith "err"), note := if impl.startsWith "err" then "" else "class=corruption-accepted" }
      else { model := m, inScope := valid }
    | _, _ => bad "C17 det"
  | ["rt", seq, sub, pts] =>
    match seq.toNat?, ofHex sub, parsePts pts with
    | some seq, some sub, some pts =>
      let utf8ok := pts.all (fun p => validUtf8 p.type && validUtf8 p.key && validUtf8 p.text && validUtf8 p.origin)
      let tombOk := pts.all (fun p => -2147483648 ≤ p.tomb && p.tomb ≤ 2147483647)
      let subOk := sub.length ≤ 16 && trimNul sub == sub
      if impl == "encerr" then
        { model := if sub.length > 16 || !utf8ok then "encerr" else "?", inScope := sub.length ≤ 16 && utf8ok,
          spec := if sub.length ≤ 16 && utf8ok then some false else none, note := "class=encode-error" }
      else
        match impl.splitOn " " with
        | pkt :: restObs =>
          match ofHex pkt with
          | some pktB =>
            -- the payload is what the implementation marshalled; the frame around it is the model's
            let isLog := sub == logSubject
            let payload := (pktB.drop 17).take (pktB.length - 17 - (if isLog then 0 else 2))
            let mpkt := match encode (UInt8.ofNat seq) sub payload with | .ok b => toHex b | _ => "encerr"
            let want := s!"{seq} {toHex sub} {ptsStr (pts.map (fun p => { p with value := narrow32 p.value }))}"
            let got := " ".intercalate restObs
            let inScope := subOk && utf8ok && tombOk
            { model := mpkt ++ " " ++ (if inScope then want else got),
              spec := if inScope then some (got == want && mpkt == pkt) else none,
              inScope := inScope,
              note := if got == want then "" else
                (if pts.any (fun p => !p.data.isEmpty) && got == s!"{seq} {toHex sub} {ptsStr (pts.map (fun p => { p with value := narrow32 p.value, data := [] }))}"
                 then "class=data-dropped" else if isLog then "class=log-subject-roundtrip" else "class=roundtrip-mismatch") }
          | none => bad "C17 rt obs"
        | _ => bad "C17 rt obs"
    | _, _, _ => bad "C17 rt"
  | _ => bad "C17 arity"

end Driver.C17
