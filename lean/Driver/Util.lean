import Siot.Basic
/- Parsing helpers for the line protocol (driver only; not part of any theorem). -/
namespace Driver
open Siot

def parseInt? (s : String) : Option Int := s.toInt?

def parseList (s : String) : List String :=
  if s == "-" || s == "" then [] else s.splitOn ","

def fields (s : String) : List String :=
  (s.splitOn " ").filter (· ≠ "")

/-- result of replaying one case on the model -/
structure Verdict where
  model : String            -- canonical observation of the model
  spec : Option Bool := none   -- executable specification evaluated on the IMPLEMENTATION's observation
  note : String := ""
  inScope : Bool := true       -- false: the case lies outside the property's quantifier

def bad (m : String) : Verdict := { model := "BADCASE " ++ m }

end Driver
