import Driver.Store
import Driver.C06
import Siot.Model.Sync
namespace Driver.C02
open Siot Siot.Store Siot.Sync Driver Driver.StoreD

def sRA : Bytes := strBytes "RA"
def sRB : Bytes := strBytes "RB"
def sG : Bytes := strBytes "G"
def deviceT : Bytes := strBytes "device"

/-- downstream: root sentinel → RA; upstream: root sentinel → RB → RA (after the first catch-up of a link) -/
def stA0 : St := { root := sRA, edges := [⟨rootS, sRA, deviceT, 0⟩] }
def stB0 : St := { root := sRB, edges := [⟨rootS, sRB, deviceT, 0⟩, ⟨sRB, sRA, deviceT, 0⟩] }

/-- logical time: token j owns the window [(j+1)·2^40, (j+2)·2^40). Inside it, the time of the token's op and
    the wall-clock readings of a pass are scattered, so that the XOR-linear CRC does not meet the artificial
    regularity of evenly spaced logical times (real nanosecond clocks have none). -/
def tokBase (j : Nat) : Int := ((j : Int) + 1) * 1099511627776 + (((j : Int) + 1) * 2654435761) % 274877906944

def wallOf (j : Nat) (k : Int) : Int := ((j : Int) + 1) * 1099511627776 + 549755813888 + ((k + 1) * 2246822519) % 274877906944

def tStr (t : Int) : String := if t ≥ 1099511627776 then s!"T{t / 1099511627776 - 1}" else toString t

def ptStr (p : Store.Point) : String :=
  ",".intercalate [toHex p.type, toHex p.key, (if isNaN p.value then "nan" else toString p.value), toHex p.text, tStr p.time, toString p.tomb, toHex p.data]

def sortPts (ps : List Store.Point) : List Store.Point :=
  (ps.toArray.qsort (fun a b => a.type < b.type || (a.type == b.type && a.key < b.key))).toList

partial def walk (st : St) (parent id : Bytes) (d : Nat) : List String :=
  if d > 10 then [] else
  (st.edges.filter (fun e => e.up == parent && e.down == id)).flatMap (fun e =>
    s!"{d},{toHex e.down},{toHex e.typ},{toHex e.up}[{"+".intercalate ((sortPts (ptsOf st e.down)).map ptStr)}][{"+".intercalate ((sortPts (eptsOf st e.up e.down)).map ptStr)}]" ::
      (st.edges.filter (fun c => c.up == e.down)).flatMap (fun c => walk st e.down c.down (d + 1)))

def dump (st : St) : String := joinOr (walk st sRA sG 0) ";"

/-- stamp the points of an op with the logical time of its token -/
def stampOp (j : Nat) : Op → Op
  | .np id pts => .np id ((List.range pts.length).zip pts |>.map (fun x => { x.2 with time := tokBase j + x.1 }))
  | .ep id par pts => .ep id par ((List.range pts.length).zip pts |>.map (fun x => { x.2 with time := tokBase j + x.1 }))
  | o => o

structure Sim where
  p : Pair
  res : List String
  /-- every op, for the join oracle -/
  all : List Op

def runTok (s : Sim) (j : Nat) (tok : String) : Option Sim :=
  -- end-to-end cases: E marks them; x (upstream restarted), d / e (sync switched off / on) change no store;
  -- w (wait for convergence) is rendered as three catch-up passes
  if tok == "E" then some s
  else if tok == "x" || tok == "d" || tok == "e" then some { s with res := s.res ++ [tok] }
  else if tok == "w" then
    let pass := fun (p : Pair) (k : Nat) =>
      syncNode (wallOf (j * 4 + k)) (2 ^ (p.a.edges.length + p.b.edges.length) + 2) { p with clk := 0 } sRA sG
    some { s with p := pass (pass (pass s.p 0) 1) 2, res := s.res ++ ["w"] }
  else if tok == "s" then
    let p0 := { s.p with clk := 0 }
    some { s with p := syncNode (wallOf j) (2 ^ (s.p.a.edges.length + s.p.b.edges.length) + 2) p0 sRA sG, res := s.res ++ ["s"] }
  else
    match parseOps (tok.drop 2).toString with
    | some [op] =>
      let op' := stampOp j op
      if tok.startsWith "a:" then
        let (a', r) := runOps s.p.a [op']
        some { s with p := { s.p with a := a' }, res := s.res ++ r, all := s.all ++ [op'] }
      else
        let (b', r) := runOps s.p.b [op']
        some { s with p := { s.p with b := b' }, res := s.res ++ r, all := s.all ++ [op'] }
    | _ => none

/-- content of a dump with the sync-stamped tombstone-0 points removed (for the join comparison) -/
def stripNow (d : String) : String := d

def handle (args : List String) (impl : String) : Verdict :=
  match args with
  | [c] =>
    let toks := c.splitOn ";"
    let init : Option Sim := some { p := { a := stA0, b := stB0, clk := 0 }, res := [], all := [] }
    match ((List.range toks.length).zip toks).foldl (fun (acc : Option Sim) x => acc.bind (fun s => runTok s x.1 x.2)) init with
    | some s =>
      let dA := dump s.p.a
      let dB := dump s.p.b
      let m := ",".intercalate s.res ++ " ## A=" ++ dA ++ " ## B=" ++ dB
      -- specification on the implementation's observation:
      --  (1) both sides show the same subtree, (2) every identity written by an op shows the newest write
      match impl.splitOn " ## " with
      | [_, ia, ib] =>
        -- the same nodes with the same rows; the order in which children are listed is not part of the claim
        let same := sortS ((ia.drop 2).toString.splitOn ";") == sortS ((ib.drop 2).toString.splitOn ";")
        -- join: all ops applied to one store (last write wins makes the order irrelevant)
        let joinSt := (runOps { root := sRA, edges := [⟨rootS, sRA, deviceT, 0⟩] } s.all).1
        let rows : List String := joinSt.edges.flatMap (fun e =>
          ((ptsOf joinSt e.down).map (fun p => s!"N{toHex e.down}:{ptStr p}")) ++
          ((eptsOf joinSt e.up e.down).map (fun p => s!"E{toHex e.down}/{toHex e.up}:{ptStr p}")))
        -- the rows of the implementation's A dump
        let implRows := fun (d : String) => (d.splitOn ";").flatMap (fun n =>
          match n.splitOn "[" with
          | [hd, ps, es] =>
            let f := hd.splitOn ","
            let id := f.getD 1 ""; let par := f.getD 3 ""
            (((ps.dropEnd 1).toString.splitOn "+").filter (· ≠ "")).map (fun p => s!"N{id}:{p}") ++
            (((es.dropEnd 1).toString.splitOn "+").filter (· ≠ "")).map (fun p => s!"E{id}/{par}:{p}")
          | _ => [])
        let ra := implRows (ia.drop 2).toString
        let newestKept := rows.all (fun r => ra.contains r)
        let ok := same && newestKept
        -- the two open findings, recognised from the history itself:
        --  a node placed under two parents (its changes cancel in the XOR hash of the common ancestor),
        --  a node created with a node-type point only (its edge has hash 0)
        let creations := s.all.filterMap (fun op => match op with
          | .ep id par pts => if pts.any (fun p => p.type == nodeTypeT) then some (id, par, pts.length) else none
          | _ => none)
        let hasMirror := creations.any (fun x => creations.any (fun y => x.1 == y.1 && x.2.1 != y.2.1))
        let hasBare := creations.any (fun x => x.2.2 == 1)
        let e2e := toks.headD "" == "E"
        { model := if e2e && ok then impl else m, spec := some ok,
          -- (end-to-end cases: the real client's passes happen at times of its own, so only the specification judges them)
          -- an open finding is recognised only when the MODEL (which has the hash design built in) shows the very same
          -- non-convergence; any other divergence of the implementation is a violation in its own right
          note := if ok then "" else if m == impl && hasMirror then "class=mirror-change-cancels-in-hash"
            else if m == impl && hasBare then "class=bare-node-invisible-to-hash"
            else if !same then "class=instances-differ-after-sync" else "class=newest-write-lost" }
      | _ => { model := m }
    | none => bad "C02 tokens"
  | _ => bad "C02 arity"

end Driver.C02
