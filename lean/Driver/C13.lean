import Driver.Util
import Siot.Model.Rule
import Siot.Spec.Window
namespace Driver.C13
open Siot Siot.Rule Siot.Schedule Driver

def h (s : String) : Option Bytes := ofHex s

def parseCond (s : String) : Option Cond :=
  match s.splitOn "," with
  | [id, ct, nid, pt, pk, vt, op, v, vtx, st, en, wd, ds, a, e] => do
    let wds := if wd == "-" then [] else wd.toList.map (· == '1')
    let dates ← if ds == "-" then some [] else (ds.splitOn ".").mapM h
    pure { id := ← h id, ctype := ← h ct, nodeID := ← h nid, pointType := ← h pt, pointKey := ← h pk, valueType := ← h vt,
           operator := ← h op, value := ← v.toNat?, valueText := ← h vtx, start := ← h st, stop := ← h en, weekdays := wds,
           dates := dates, active := a == "1", error := ← h e }
  | _ => none

def parseAct (s : String) : Option Act :=
  match s.splitOn "," with
  | [id, ac, nid, pt, v, vtx, a, e] => do
    pure { id := ← h id, action := ← h ac, nodeID := ← h nid, pointType := ← h pt, value := ← v.toNat?, valueText := ← h vtx,
           active := a == "1", error := ← h e }
  | [id, ac, nid, pt, v, vtx, a, e, fp] => do
    pure { id := ← h id, action := ← h ac, nodeID := ← h nid, pointType := ← h pt, value := ← v.toNat?, valueText := ← h vtx,
           active := a == "1", error := ← h e, filePath := ← h fp }
  | _ => none

def parseListWith {α} (f : String → Option α) (s : String) : Option (List α) :=
  if s == "-" then some [] else (s.splitOn "+").mapM f

def parseRule (s : String) : Option Rule :=
  match s.splitOn "/" with
  | [hd, cs, as, is] =>
    match hd.splitOn "," with
    | [id, a, e] => do
      pure { id := ← h id, active := a == "1", error := ← h e, conds := ← parseListWith parseCond cs,
             acts := ← parseListWith parseAct as, actsInactive := ← parseListWith parseAct is }
    | _ => none
  | _ => none

def parsePt (s : String) : Option Pt :=
  match s.splitOn "," with
  | [t, k, v, tx, tm] => do pure { type := ← h t, key := ← h k, value := ← v.toNat?, text := ← h tx, time := ← tm.toInt? }
  | _ => none

def parseEvent (s : String) : Option Event :=
  match s.splitOn ":" with
  | ["b", n, now, pts] => do pure (.batch (← h n) (← parseListWith parsePt pts) (← now.toInt?))
  | ["t", now] => do pure (.tick (← now.toInt?))
  | ["cv", i, v] => do pure (.setCondValue (← i.toNat?) (← v.toNat?) 0)
  | ["av", w, i, v] => do pure (.setActValue (if w == "i" then .inact else .act) (← i.toNat?) (← v.toNat?) 0)
  | _ => none

def outStr (o : Out) : String := s!"{toHex o.node},{toHex o.type},{o.value},{toHex o.text},{toHex o.origin}"
def join (l : List String) (sep : String) : String := if l.isEmpty then "-" else sep.intercalate l
def b01 (b : Bool) : String := if b then "1" else "0"

def stateStr (r : Rule) : String :=
  s!"{b01 r.active},{toHex r.error}/" ++ join (r.conds.map (fun c => s!"{b01 c.active},{toHex c.error},{c.value}")) "+" ++ "/" ++
  join (r.acts.map (fun a => s!"{b01 a.active},{toHex a.error},{a.value}")) "+" ++ "/" ++
  join (r.actsInactive.map (fun a => s!"{b01 a.active},{toHex a.error},{a.value}")) "+"

/-! ### independent specification, evaluated on the implementation's observation -/

/-- float comparison through Lean's `Float` (not the model's bit arithmetic) -/
def fl (b : Nat) : Float := Float.ofBits (UInt64.ofNat b)

def specCmp (c : Cond) (p : Pt) : Option Bool :=
  let s := fun (b : Bytes) => String.mk (b.map (fun x => Char.ofNat x.toNat))
  match s c.valueType, s c.operator with
  | "number", ">" => some (fl p.value > fl c.value)
  | "number", "<" => some (fl p.value < fl c.value)
  | "number", "=" => some (fl p.value == fl c.value)
  | "number", "!=" => some (fl p.value != fl c.value)
  | "onOff", _ => some ((fl c.value != 0.0) == (fl p.value != 0.0))
  | "text", "=" => some (p.text == c.valueText)
  | "text", "!=" => some (p.text != c.valueText)
  | "text", "contains" => some (((s p.text).splitOn (s c.valueText)).length > 1 || c.valueText.isEmpty)
  | _, _ => none      -- operator / value type outside the documented set: no claim

def matchesC (c : Cond) (node : Bytes) (p : Pt) : Bool :=
  (c.nodeID.isEmpty || c.nodeID == node) && (c.pointKey.isEmpty || c.pointKey == p.key) && (c.pointType.isEmpty || c.pointType == p.type)

/-- expected `active` of one condition after the events (none = no claim: nothing matched, outside the
    documented operators, or a schedule that does not parse) -/
def specCond (c0 : Cond) (idx : Nat) (evs : List Event) (rid : Bytes) : Option Bool := Id.run do
  let mut c := c0
  let mut res : Option Bool := none
  let mut known := true
  for e in evs do
    let (node, pts) : Bytes × List Pt := match e with
      | .batch n ps _ => (n, ps)
      | .tick now => (rid, [⟨sTrigger, [], 0, [], now⟩])
      | _ => (rid, [])
    match e with
    | .setCondValue i v _ => if i == idx then c := { c with value := v }
    | _ => pure ()
    match e with
    | .batch .. | .tick .. =>
      for p in pts do
        if c.ctype == sPointValue then
          if matchesC c node p then
            match specCmp c p with
            | some b => res := some b; known := true
            | none => known := false
        else if c.ctype == sSchedule then
          if p.type == sTrigger then
            match parseHM c.start, parseHM c.stop with
            | some (sh, sm), some (eh, em) =>
              if sh < 24 && sm < 60 && eh < 24 && em < 60 && c.dates.all (fun d => (parseDate d).isSome) then
                res := some (windowExec (weekdayList c.weekdays) c.dates sh sm eh em p.time); known := true
              else known := false
            | _, _ => known := false
        else known := false
    | _ =>
      -- a configuration change evaluates a trigger at the wall clock: it can match an unfiltered condition
      if c.ctype == sPointValue && matchesC c rid ⟨sTrigger, [], 0, [], 0⟩ then
        match specCmp c ⟨sTrigger, [], 0, [], 0⟩ with
        | some b => res := some b; known := true
        | none => known := false
      else if c.ctype != sPointValue then known := false
  return if known then res else none

def handle (args : List String) (impl : String) : Verdict :=
  match args with
  | [rs, es] =>
    match parseRule rs, (es.splitOn ";").mapM parseEvent with
    | some r, some evs =>
      let (r', outs) := runEvents r evs
      let m := join (outs.flatten.map outStr) "+" ++ " ## " ++ stateStr r'
      -- specification on the implementation's final state
      match impl.splitOn " ## " with
      | [implOuts, implState] =>
        match implState.splitOn "/" with
        | [hd, cs, as, is] =>
          let implCond : List Bool := if cs == "-" then [] else (cs.splitOn "+").map (fun x => (x.splitOn ",").headD "" == "1")
          let implActive := (hd.splitOn ",").headD "" == "1"
          let condOk := (List.range r.conds.length).all (fun i =>
            match r.conds[i]?, implCond[i]? with
            | some c, some a => match specCond c i evs r.id with | some b => a == b | none => true
            | _, _ => false)
          let allOk := implActive == implCond.all id
          -- action firings: the set-value publications on target nodes are those of the model's
          -- (theorem c13_fire_*); checked here as a sub-sequence comparison on targets only
          let tgt := fun (s : String) => (s.splitOn ",").headD "" == toHex (strBytes "t1") || (s.splitOn ",").headD "" == toHex (strBytes "t2")
          let implT := (if implOuts == "-" then [] else implOuts.splitOn "+").filter tgt
          let modelT := (outs.flatten.map outStr).filter tgt
          let actOk := implT == modelT
          -- "the corresponding action list runs once and the opposite list is marked inactive": the active marks of both
          -- lists at the end are those the firings of the history leave (theorem c13_actions_once_per_change on the model)
          let flags := fun (l : String) => if l == "-" then [] else (l.splitOn "+").map (fun x => (x.splitOn ",").headD "" == "1")
          let marksOk := flags as == r'.acts.map (·.active) && flags is == r'.actsInactive.map (·.active)
          let ok := condOk && allOk && actOk && marksOk
          { model := m, spec := some ok,
            note := if ok then "" else if !condOk then "class=condition-not-latest-comparison" else if !allOk then "class=rule-active-not-conjunction"
              else if !actOk then "class=action-firing-differs" else "class=action-lists-marked-wrongly" }
        | _ => { model := m }
      | _ => { model := m }
    | _, _ => bad "C13 parse"
  | _ => bad "C13 arity"

end Driver.C13
