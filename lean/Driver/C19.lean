import Driver.C18
import Siot.Model.ModbusE2E
namespace Driver.C19
open Siot Siot.Modbus Driver

def frOf (s : String) : Option Framing := if s == "rtu" then some .rtu else if s == "tcp" then some .tcp else none

def bitsStr (bs : List Bool) : String :=
  if bs.isEmpty then "-" else String.ofList (bs.map (fun b => if b then '1' else '0'))

def natsStr (vs : List Nat) : String := if vs.isEmpty then "-" else ",".intercalate (vs.map toString)

def handle1 (txID : Nat) (args : List String) (impl : String) : Verdict :=
  match args with
  | ["rb", fr, regs, fc, a, n] =>
    match frOf fr, C18.parseSpecs regs >>= C18.buildRegs, fc.toNat?, a.toNat?, n.toNat? with
    | some fr, some rs, some fc, some a, some n =>
      let m := match clientReadBits fr txID 1 rs fc a n with
        | .ok bs => "ok " ++ bitsStr bs | .err e => "err " ++ e | .panic p => "PANIC " ++ p
      -- specification: within the limits and with every addressed coil present the client returns
      -- exactly `count` values, each the coil the server holds; otherwise an error
      let vals := (List.range n).map (fun i => readCoil rs (a + i))
      let legal := 1 ≤ n && n ≤ 2000 && a + n ≤ 65536 && vals.all Option.isSome
      let want := if legal then "ok " ++ bitsStr (vals.map (fun v => v.getD false)) else "err"
      let ok := if legal then impl == want else impl.startsWith "err"
      { model := m, spec := some ok, note := if ok then "" else "class=client-disagrees-with-server" }
    | _, _, _, _, _ => bad "C19 rb"
  | ["rr", fr, regs, fc, a, n] =>
    match frOf fr, C18.parseSpecs regs >>= C18.buildRegs, fc.toNat?, a.toNat?, n.toNat? with
    | some fr, some rs, some fc, some a, some n =>
      let m := match clientReadRegs fr txID 1 rs fc a n with
        | .ok vs => "ok " ++ natsStr vs | .err e => "err " ++ e | .panic p => "PANIC " ++ p
      let vals := (List.range n).map (fun i => readReg rs (a + i))
      let legal := 1 ≤ n && n ≤ 125 && a + n ≤ 65536 && vals.all Option.isSome
      let ok := if legal then impl == "ok " ++ natsStr (vals.map (fun v => v.getD 0)) else impl.startsWith "err"
      { model := m, spec := some ok, note := if ok then "" else "class=client-disagrees-with-server" }
    | _, _, _, _, _ => bad "C19 rr"
  | ["ws", fr, regs, fc, a, v] =>
    match frOf fr, C18.parseSpecs regs >>= C18.buildRegs, fc.toNat?, a.toNat?, v.toNat? with
    | some fr, some rs, some fc, some a, some v =>
      let value := if fc == 5 then (if v != 0 then 0xff00 else 0) else v
      let (r, rs') := clientWriteSingle fr 1 1 rs fc a value
      let m := (match r with | .ok _ => "ok" | .err e => "err " ++ e | .panic p => "PANIC " ++ p) ++ " | " ++ C18.regsStr rs'
      -- specification: "ok" exactly when the server accepted the write, and then a read returns what was written
      let after : Option Regs :=
        if fc == 6 then (match Spec.validatorOf rs a with
          | some okv => if okv v then some (Spec.setReg rs a v) else none | none => none)
        else (match readReg rs (a / 16), Spec.validatorOf rs (a / 16) with
          | some rv, some okv => let nv := setBit rv (a % 16) (v != 0); if okv nv then some (Spec.setReg rs (a / 16) nv) else none
          | _, _ => none)
      let want := match after with
        | some r => "ok | " ++ C18.regsStr r
        | none => ""
      let ok := match after with
        | some _ => impl == want
        | none => impl.startsWith "err" && impl.endsWith (" | " ++ C18.regsStr rs)
      { model := m, spec := some ok, note := if ok then "" else "class=write-disagrees" }
    | _, _, _, _, _ => bad "C19 ws"
  | ["fr", fr, h] =>
    match frOf fr, ofHex h with
    | some .rtu, some b =>
      { model := match rtuDecode b with
          | .ok (id, fc, d) => s!"ok {id.toNat} {fc} {toHex d}" | .err e => "err " ++ e | .panic p => "PANIC " ++ p }
    | some .tcp, some b =>
      { model := match tcpDecodeServer b with
          | .ok (_, id, fc, d) => s!"ok {id.toNat} {fc} {toHex d}" | .err e => "err " ++ e | .panic p => "PANIC " ++ p }
    | _, _ => bad "C19 fr"
  | ["fq", k, h] =>
    match k.toNat?, ofHex h with
    | some k, some b =>
      -- specification: an answer is accepted exactly when it is long enough and carries the transaction id of the request
      let accepted := impl.startsWith "ok"
      let should := match b with
        | t1 :: t0 :: _ => decide (b.length ≥ 9) && decide (t1.toNat * 256 + t0.toNat = k % 65536)
        | _ => false
      { model := match tcpDecodeClient (k % 65536) b with
          | .ok (id, fc, d) => s!"ok {id.toNat} {fc} {toHex d}" | .err e => "err " ++ e | .panic p => "PANIC " ++ p,
        spec := some (accepted == should), note := if accepted == should then "" else "class=answer-with-foreign-transaction-id-accepted" }
    | _, _ => bad "C19 fq"
  | ["cv", kind, vs] =>
    match (parseList vs).mapM String.toNat? with
    | some vs =>
      let swap := kind.endsWith "s"
      if kind == "i16" then
        let back := vs.map (fun v => ofSigned 32 (toSigned 16 v))
        { model := natsStr vs ++ " | " ++ natsStr back, spec := some (impl == natsStr vs ++ " | " ++ natsStr back) }
      else
        let regs := vs.flatMap (fun v => if swap then uint32ToRegsSwap v else uint32ToRegs v)
        let back := if swap then regsToUint32Swap regs else regsToUint32 regs
        let m := natsStr regs ++ " | " ++ natsStr back
        -- specification: the conversions are exact inverses
        { model := m, spec := some (impl == natsStr regs ++ " | " ++ natsStr vs) }
    | none => bad "C19 cv"
  | _ => bad "C19 arity"

/-- sq: several reads over one link; the i-th request carries transaction id i (TCP), every answer is judged like a
    single read -/
def handle (args : List String) (impl : String) : Verdict :=
  match args with
  | ["sq", fr, regs, reqs] =>
    let rqs := reqs.splitOn ";"
    let impls := impl.splitOn " ; "
    if impls.length != rqs.length then { model := "BADOBS", spec := some false, note := "class=client-disagrees-with-server" } else
    let vs := ((List.range rqs.length).zip (rqs.zip impls)).map (fun x =>
      match x.2.1.splitOn ":" with
      | [k, fc, a, n] => handle1 (x.1 + 1) [k, fr, regs, fc, a, n] x.2.2
      | _ => bad "C19 sq request")
    { model := " ; ".intercalate (vs.map (·.model)),
      spec := some (vs.all (fun v => v.spec == some true)),
      note := (vs.map (·.note)).foldl (fun acc n => if acc == "" then n else acc) "" }
  | _ => handle1 1 args impl

end Driver.C19
