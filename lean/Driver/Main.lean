import Driver.C01
import Driver.C02
import Driver.C04
import Driver.C06
import Driver.C07
import Driver.C08
import Driver.C09
import Driver.C10
import Driver.C12
import Driver.C13
import Driver.C14
import Driver.C15
import Driver.C16
import Driver.C17
import Driver.C18
import Driver.C19
import Driver.C20
/-
siot-model: line-protocol driver. Reads "<PROP> <case...> => <impl observation>" lines on stdin,
replays each case on the Lean model and prints
  "<A|D> <S|F|N> <model observation>"
A/D: model observation agrees / disagrees with the implementation's;
S/F/N/O: executable specification satisfied / falsified by the implementation's observation /
     no oracle for this case / case outside the property's quantifier.
-/
open Driver

/-- store cases run over the bus carry the prefix "B=": same ops, same observation format (content read through nodes.* requests) -/
def busArgs (args : List String) : List String :=
  match args with
  | [c] => if c.startsWith "B=" then [(c.drop 2).toString] else args
  | _ => args

def dispatch (prop : String) (args : List String) (impl : String) : Verdict :=
  match prop with
  | "C01" => C01.handleC01 (busArgs args) impl
  | "C02" => C02.handle args impl
  | "C03" => C01.handleC03 (busArgs args) impl
  | "C04" => C04.handle args impl
  | "C05" =>
    -- "B=" cases run over the bus with a subscription to up.> and are judged by the rebroadcast model of C06
    (match args with
     | [c] => if c.startsWith "B=" then C06.handle [(c.drop 2).toString] impl
              else if c.startsWith "M=" then C01.handleC05Move (c.drop 2).toString impl
              else C01.handleC05 args impl
     | _ => C01.handleC05 args impl)
  | "C06" => C06.handle args impl
  | "C07" => C07.handle args impl
  | "C08" => C08.handle args impl
  | "C09" => C09.handle args impl
  | "C10" => C10.handle args impl
  | "C11" => C10.handle args impl
  | "C12" => C12.handle args impl
  | "C13" => C13.handle args impl
  | "C14" =>
    -- "R=" cases: a rule with several schedule conditions through the real rule client, judged by the rule model
    (match args with
     | "R=" :: rest => C13.handle rest impl
     | _ => C14.handle args impl)
  | "C15" => C15.handle args impl
  | "C16" => C16.handle args impl
  | "C17" => C17.handle args impl
  | "C18" => C18.handle args impl
  | "C19" => C19.handle args impl
  | "C20" => C20.handle args impl
  | _ => bad ("unknown property " ++ prop)

def processLine (line : String) : String :=
  let line := line.trimAscii.toString
  match line.splitOn " => " with
  | [lhs, impl] =>
    match fields lhs with
    | prop :: args =>
      let v := dispatch prop args impl
      let a := if v.model == impl then "A" else "D"
      let s := if !v.inScope then "O" else match v.spec with | some true => "S" | some false => "F" | none => "N"
      a ++ " " ++ s ++ " " ++ v.model ++ (if v.note.isEmpty then "" else " | " ++ v.note)
    | [] => "D N BADCASE empty"
  | _ => "D N BADCASE no-observation"

partial def loop (h : IO.FS.Stream) (out : IO.FS.Stream) : IO Unit := do
  let line ← h.getLine
  if line.isEmpty then return ()
  out.putStrLn (processLine line)
  loop h out

def main : IO Unit := do
  let stdin ← IO.getStdin
  let stdout ← IO.getStdout
  loop stdin stdout
