import Driver.Util
import Siot.Spec.Window
namespace Driver.C14
open Siot Siot.Schedule Driver

def resStr : Res Bool → String
  | .ok b => "ok " ++ toString b
  | .err e => "err " ++ e
  | .panic m => "PANIC " ++ m

def handle (args : List String) (impl : String) : Verdict :=
  match args with
  | [st, en, wds, dates, sec, nsec, _zone] =>
    match ofHex st, ofHex en, (parseList wds).mapM parseInt?, (parseList dates).mapM ofHex,
          parseInt? sec, parseInt? nsec with
    | some st, some en, some wds, some dates, some sec, some nsec =>
      let s : Sched := ⟨st, en, wds, dates⟩
      let t := sec * 1000000000 + nsec
      let m := resStr (activeForTime s t)
      -- the specification applies when both times are valid clock times and all dates parse
      let spec : Option Bool :=
        match parseHM st, parseHM en with
        | some (sh, sm), some (eh, em) =>
          if sh < 24 && sm < 60 && eh < 24 && em < 60 && dates.all (fun d => (parseDate d).isSome) then
            some (impl == "ok " ++ toString (windowExec wds dates sh sm eh em t))
          else none
        | _, _ => none
      { model := m, spec := spec, inScope := spec.isSome || m.startsWith "err" }
    | _, _, _, _, _, _ => bad "C14 parse"
  | _ => bad "C14 arity"

end Driver.C14
