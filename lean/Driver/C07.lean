import Driver.Store
import Driver.C06
import Driver.C08
import Siot.Model.Manager
import Driver.Cfg
namespace Driver.C07
open Siot Siot.Store Siot.Manager Driver Driver.StoreD

def vparentT : Bytes := strBytes "vparent"
def isDel (bits : Nat) : Bool := bits != 0

/-- the instrumented client's configuration type (harness vclient.go: Vdev with its Vchild children) in the
    embedding of the C10/C11 model -/
def vdevTy : Config.Ty :=
  [⟨false, strBytes "description", .scalar .str⟩, ⟨false, strBytes "value", .scalar .f64⟩,
   ⟨false, strBytes "level", .slice .f64⟩, ⟨false, strBytes "tag", .map .str⟩, ⟨true, strBytes "role", .scalar .str⟩]
def vchildTy : Config.Ty := [⟨false, strBytes "description", .scalar .str⟩, ⟨false, strBytes "value", .scalar .f64⟩]

def cfgPt (p : Point) : Config.Point := { type := p.type, key := p.key, value := p.value, text := p.text, tomb := p.tomb }

/-- newClientState succeeds: the node with its children decodes into the configuration type (model of data.Decode) -/
def decodable (st : St) (k : Key) : Bool :=
  let lv := Auth.live isDel st
  let ne : Config.NodeEdge := { id := k.2, parent := k.1, points := (ptsOf st k.2).map cfgPt, edgePoints := (eptsOf st k.1 k.2).map cfgPt }
  let kids : List (Bytes × Config.NodeEdge) := (lv.filter (fun e => e.up == k.2)).map (fun e =>
    (e.typ, { id := e.down, parent := e.up, points := (ptsOf st e.down).map cfgPt, edgePoints := (eptsOf st e.up e.down).map cfgPt }))
  let r := Config.decodeC Cfg.num vdevTy [⟨C08.vchildT, vchildTy⟩] ne kids (Config.zero vdevTy) [[]]
  !r.1.err && r.1.panic.isNone

def handle (args : List String) (impl : String) : Verdict :=
  match args with
  | [c] =>
    let opsS := ";".intercalate ((c.splitOn ";").filter (fun t => t ≠ "w" && t ≠ "S" && t ≠ "X" && t ≠ "L"))
    let racing := (c.splitOn ";").headD "" == "X"
    match C08.groupOp, (if opsS == "" then some [] else parseOps opsS) with
    | some g, some ops =>
      let (st, rs) := runOps C06.st0 (g ++ ops)
      -- placements the manager wants a client for; a client is only started where newClientState succeeds
      let w := ((wanted isDel st C08.vdevT [vparentT]).eraseDups).filter (decodable st)
      let keyS := fun (k : Key) => C06.idStr k.1 ++ "-" ++ C06.idStr k.2
      let lv := Auth.live isDel st
      let kids := fun (id : Bytes) => sortS ((lv.filter (fun e => e.up == id && e.typ == C08.vchildT)).map (fun e => C06.idStr e.down))
      let runs := sortS (w.map (fun k => s!"{keyS k}:1:{"+".intercalate (kids k.2)}:same"))
      let m := ",".intercalate (rs.drop 1) ++ " ## run=" ++ joinOr runs "," ++ " overlap=- stop=returned left=0"
      -- specification, independently of scanH: closure from R through live group/vparent children
      let lvE := lv
      let reach : List Bytes := (List.range (lvE.length + 1)).foldl (fun acc _ =>
        (acc ++ (lvE.filter (fun e => acc.contains e.up && (e.typ == groupT || e.typ == vparentT))).map (·.down)).eraseDups) [st.root]
      -- independent reading of "cannot be decoded": a `level` point whose key is neither empty nor a non-negative integer
      let badNode := fun (id : Bytes) => (ptsOf st id).any (fun p => p.type == strBytes "level" && !p.key.isEmpty &&
        (match Config.atoi p.key with | some i => decide (i < 0) | none => true))
      let should := sortS (((lvE.filter (fun e => e.typ == C08.vdevT && reach.contains e.up && !badNode e.down)).map (fun e => keyS (e.up, e.down))).eraseDups)
      let implRuns := match (impl.splitOn "run=").getD 1 "" |>.splitOn " " with
        | r :: _ => if r == "-" then [] else r.splitOn ","
        | [] => []
      let implKeys := sortS (implRuns.map (fun r => (r.splitOn ":").headD ""))
      let oneEach := implRuns.all (fun r => (r.splitOn ":").getD 1 "" == "1")
      let tail := (impl.splitOn " overlap=").getD 1 ""
      let okSet := implKeys == should
      let okKids := implRuns.all (fun r =>
        match r.splitOn ":" with
        | [k, _, ch, cfg] =>
          (match w.find? (fun x => keyS x == k) with
           | some x => ch == "+".intercalate (kids x.2)
           | none => true) && (cfg == "same" || !(should.contains k))
        | _ => false)
      let okTail := tail == "- stop=returned left=0"
      let ok := okSet && oneEach && okKids && okTail
      let extra := implKeys.any (fun k => !should.contains k)
      { model := m, spec := some ok,
        note := if ok then "" else if !okTail then "class=overlap-or-stop-failure" else if extra then "class=client-for-dead-placement"
          else if !okSet then "class=live-node-without-client" else if !oneEach then "class=two-clients-one-placement"
          else if racing then "class=write-between-construct-and-subscribe" else "class=client-config-stale" }
    | _, _ => bad "C07 ops"
  | _ => bad "C07 arity"

end Driver.C07
