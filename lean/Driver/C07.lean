import Driver.Store
import Driver.C06
import Driver.C08
import Siot.Model.Manager
namespace Driver.C07
open Siot Siot.Store Siot.Manager Driver Driver.StoreD

def vparentT : Bytes := strBytes "vparent"
def isDel (bits : Nat) : Bool := bits != 0

def handle (args : List String) (impl : String) : Verdict :=
  match args with
  | [c] =>
    let opsS := ";".intercalate ((c.splitOn ";").filter (fun t => t ≠ "w" && t ≠ "S" && t ≠ "X"))
    let racing := (c.splitOn ";").headD "" == "X"
    match C08.groupOp, (if opsS == "" then some [] else parseOps opsS) with
    | some g, some ops =>
      let (st, rs) := runOps C06.st0 (g ++ ops)
      let w := (wanted isDel st C08.vdevT [vparentT]).eraseDups
      let keyS := fun (k : Key) => C06.idStr k.1 ++ "-" ++ C06.idStr k.2
      let lv := Auth.live isDel st
      let kids := fun (id : Bytes) => sortS ((lv.filter (fun e => e.up == id && e.typ == C08.vchildT)).map (fun e => C06.idStr e.down))
      let runs := sortS (w.map (fun k => s!"{keyS k}:1:{"+".intercalate (kids k.2)}:same"))
      let m := ",".intercalate (rs.drop 1) ++ " ## run=" ++ joinOr runs "," ++ " overlap=- stop=returned left=0"
      -- specification, independently of scanH: closure from R through live group/vparent children
      let lvE := lv
      let reach : List Bytes := (List.range (lvE.length + 1)).foldl (fun acc _ =>
        (acc ++ (lvE.filter (fun e => acc.contains e.up && (e.typ == groupT || e.typ == vparentT))).map (·.down)).eraseDups) [st.root]
      let should := sortS (((lvE.filter (fun e => e.typ == C08.vdevT && reach.contains e.up)).map (fun e => keyS (e.up, e.down))).eraseDups)
      let implRuns := match (impl.splitOn "run=").getD 1 "" |>.splitOn " " with
        | r :: _ => if r == "-" then [] else r.splitOn ","
        | [] => []
      let implKeys := sortS (implRuns.map (fun r => (r.splitOn ":").headD ""))
      let oneEach := implRuns.all (fun r => (r.splitOn ":").getD 1 "" == "1")
      let tail := (impl.splitOn " overlap=").getD 1 ""
      let okSet := implKeys == should
      let okKids := implRuns.all (fun r =>
        match r.splitOn ":" with
        | [k, _, ch, cfg] =>
          (match w.find? (fun x => keyS x == k) with
           | some x => ch == "+".intercalate (kids x.2)
           | none => true) && (cfg == "same" || !(should.contains k))
        | _ => false)
      let okTail := tail == "- stop=returned left=0"
      let ok := okSet && oneEach && okKids && okTail
      let extra := implKeys.any (fun k => !should.contains k)
      { model := m, spec := some ok,
        note := if ok then "" else if !okTail then "class=overlap-or-stop-failure" else if extra then "class=client-for-dead-placement"
          else if !okSet then "class=live-node-without-client" else if !oneEach then "class=two-clients-one-placement"
          else if racing then "class=write-between-construct-and-subscribe" else "class=client-config-stale" }
    | _, _ => bad "C07 ops"
  | _ => bad "C07 arity"

end Driver.C07
