import Driver.Util
import Siot.Model.Cobs
namespace Driver.C16
open Siot Siot.Cobs Driver

def resStr : Res Bytes → String
  | .ok b => "ok:" ++ toHex b
  | .err e => "err:" ++ e
  | .panic m => "PANIC " ++ m

def outStr : ReadOut → String
  | .frame r => resStr r
  | .tooMuch => "err:toomuch"
  | .devErr => "err:dev"

/-- the scripted device never returns more than `len(b)` bytes per read -/
partial def rechunk (n : Nat) : List Bytes → List Bytes
  | [] => []
  | c :: cs => if n > 0 && c.length > n then c.take n :: rechunk n (c.drop n :: cs) else c :: rechunk n cs

def handle (args : List String) (impl : String) : Verdict :=
  match args with
  | ["enc", f] =>
    match ofHex f with
    | some f => { model := toHex (wire f), spec := some (decodeInplace (wire f) == .ok f && impl == toHex (wire f)) }
    | none => bad "C16 enc"
  | ["dec", b] =>
    match ofHex b with
    | some b => { model := resStr (decodeInplace b) }
    | none => bad "C16 dec"
  | ["rd", bufLen, maxLen, chunks, frames, pre, post] =>
    match bufLen.toNat?, maxLen.toNat?, ((if chunks == "-" then [] else chunks.splitOn ";").mapM ofHex),
          ((frames.splitOn ",").mapM ofHex), pre.toNat?, post.toNat? with
    | some bufLen, some maxLen, some chunks, some frames, some pre, some post =>
      let cfg : Cfg := ⟨bufLen, maxLen⟩
      let cs := rechunk bufLen chunks
      let total := (cs.map List.length).sum + cs.length + 5
      let outs := readAll cfg total [] cs
      let m := ";".intercalate (outs.map outStr)
      -- specification oracle on the implementation's results:
      -- the first `pre` frames come first, intact; the last `post` frames come last (before the
      -- device error), intact; an undamaged in-limit stream yields exactly the frames.
      let implOuts := impl.splitOn ";"
      let want := frames.map (fun f => "ok:" ++ toHex f)
      let inLimit := frames.all (fun f => (wire f).length ≤ bufLen && (encode f).length ≤ maxLen + 1 && (encode f).length ≤ bufLen)
      let body := implOuts.dropLast
      let okPre := body.take pre == want.take pre
      let okPost := (body.drop (body.length - post)) == want.drop (want.length - post) && post ≤ body.length
      let okEnd := implOuts.getLast? == some "err:dev"
      let exact := if pre == frames.length && post == frames.length then body == want else true
      if inLimit then
        { model := m, spec := some (okPre && okPost && okEnd && exact),
          note := if okPre && okPost && okEnd && exact then "" else "class=frames-not-delivered-intact" }
      else { model := m, spec := none, inScope := true }
    | _, _, _, _, _, _ => bad "C16 rd parse"
  | _ => bad "C16 arity"

end Driver.C16
