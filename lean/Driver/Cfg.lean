import Driver.Util
import Siot.Model.Config
/- driver for C10 / C11: text forms of dynamic config types, values and points; float instance of `Num` -/
namespace Driver.Cfg
open Siot Siot.Config Driver

/-! ### the numeric parameter instantiated with IEEE floats and Go's amd64 conversions -/
def f64 (bits : Nat) : Float := Float.ofBits (UInt64.ofNat bits)

def goToInt64 (bits : Nat) : Int :=
  let x := f64 bits
  if x.isNaN || x ≥ 9223372036854775808.0 || x < -9223372036854775808.0 then -9223372036854775808
  else
    let t := if x < 0 then -((-x).floor) else x.floor
    -- exact integer value of a float: via its UInt64 magnitude
    if t < 0 then -(((-t).toUInt64.toNat : Nat) : Int) else ((t.toUInt64.toNat : Nat) : Int)

def goToUint64 (bits : Nat) : Nat :=
  let x := f64 bits
  if x < 9223372036854775808.0 then
    -- int64(x) reinterpreted as uint64
    ((goToInt64 bits) % 18446744073709551616).toNat
  else
    -- uint64(int64(x - 2^63)) | (1 << 63); NaN and values ≥ 2^64 give 2^63
    let y := x - 9223372036854775808.0
    let i := goToInt64 y.toBits.toNat
    let u := (i % 18446744073709551616).toNat
    Nat.lor u 9223372036854775808

def num : Num where
  ofInt i := (Float.ofInt i).toBits.toNat
  toInt64 := goToInt64
  toUint64 := goToUint64
  isOne bits := f64 bits == 1.0
  isNeg bits := f64 bits < 0.0
  widen bits := (Float32.ofBits (UInt32.ofNat bits)).toFloat.toBits.toNat
  narrow bits := (f64 bits).toFloat32.toBits.toNat
  feq k a b := match k with
    | .f32 => Float32.ofBits (UInt32.ofNat a) == Float32.ofBits (UInt32.ofNat b)
    | _ => f64 a == f64 b

/-! ### parsing -/
def kindOf (s : String) : Option SKind :=
  match s with
  | "b" => some .bool | "i8" => some (.int 8) | "i16" => some (.int 16) | "i32" => some (.int 32) | "i64" => some (.int 64)
  | "i" => some (.int 64) | "u8" => some (.uint 8) | "u16" => some (.uint 16) | "u32" => some (.uint 32)
  | "u64" => some (.uint 64) | "u" => some (.uint 64) | "f32" => some .f32 | "f64" => some .f64 | "s" => some .str
  | _ => none

/-- `data.ToCamelCase` on ASCII identifiers: the key of an inner struct field that has no point tag -/
def toCamelCase (s : Bytes) : Bytes :=
  let isLower := fun (c : UInt8) => 97 ≤ c.toNat && c.toNat ≤ 122
  let lower := fun (c : UInt8) => if 65 ≤ c.toNat && c.toNat ≤ 90 then UInt8.ofNat (c.toNat + 32) else c
  match s.findIdx? isLower with
  | none => s.map lower
  | some 0 => s
  | some 1 => (s.take 1).map lower ++ s.drop 1
  | some i => (s.take (i - 1)).map lower ++ s.drop (i - 1)

def parseSubs (s : String) : Option (List (Bytes × SKind)) :=
  (s.splitOn "+").mapM (fun x => match x.splitOn "=" with
    | [k, kd] =>
      if k.startsWith "^" then do pure (toCamelCase (← ofHex (k.drop 1).toString), (← kindOf kd))
      else do pure ((← ofHex k), (← kindOf kd))
    | _ => none)

def parseFty (s : String) : Option FieldTy :=
  let rest := (s.drop 1).toString
  match s.front with
  | 'S' => (kindOf rest).map .scalar
  | 'P' => (kindOf rest).map .ptr
  | 'L' => (kindOf rest).map .slice
  | 'M' => (kindOf rest).map .map
  | 'A' => match rest.splitOn "_" with
    | [n, k] => do pure (.array (← n.toNat?) (← kindOf k))
    | _ => none
  | 'T' => (parseSubs rest).map .struct
  | 'Q' => (parseSubs rest).map .ptrStruct
  | _ => none

def parseTy (s : String) : Option Ty :=
  if s == "-" then some [] else
  (s.splitOn "/").mapM (fun f => match f.splitOn ":" with
    | [tag, pt, fty] => do pure { edge := tag == "e", ptype := ← ofHex pt, ty := ← parseFty fty }
    | _ => none)

def parseS (k : SKind) (s : String) : Option SVal :=
  match k with
  | .bool => some (.b (s == "1"))
  | .int _ => s.toInt?.map .i
  | .uint _ => s.toNat?.map .u
  | .f32 => s.toNat?.map .f
  | .f64 => s.toNat?.map .f
  | .str => (ofHex s).map .s

def inParen (s : String) : List String :=
  let inner := ((s.drop 2).dropEnd 1).toString
  if inner.isEmpty then [] else inner.splitOn "+"

def parseF (ty : FieldTy) (s : String) : Option FVal :=
  match ty with
  | .scalar k => (parseS k s).map .scalar
  | .ptr k => if s == "~" then some (.ptr none) else (parseS k s).map (fun v => .ptr (some v))
  | .slice k => ((inParen s).mapM (parseS k)).map .slice
  | .array _ k => ((inParen s).mapM (parseS k)).map .array
  | .map k => ((inParen s).mapM (fun (kv : String) => match kv.splitOn "=" with
      | [a, b] => do pure ((← ofHex a), (← parseS k b))
      | _ => none)).map .map
  | .struct fs => (((inParen s).zip fs).mapM (fun (xf : String × (Bytes × SKind)) => parseS xf.2.2 xf.1)).map .struct
  | .ptrStruct fs => if s == "~" then some (.ptrStruct none)
      else (((inParen s).zip fs).mapM (fun (xf : String × (Bytes × SKind)) => parseS xf.2.2 xf.1)).map (fun v => .ptrStruct (some v))

def parseVal (T : Ty) (s : String) : Option Val :=
  match s.splitOn "/" with
  | i :: p :: fs => do
    let fvs ← (fs.zip T).mapM (fun (x, f) => parseF f.ty x)
    if fvs.length != T.length then none
    pure { id := ← ofHex i, parent := ← ofHex p, fields := fvs }
  | _ => none

def sStr : SVal → String
  | .b v => if v then "1" else "0"
  | .i v => toString v
  | .u v => toString v
  | .f v => toString v
  | .s v => toHex v

def sortStr (l : List String) : List String := (l.toArray.qsort (· < ·)).toList

def fStr : FVal → String
  | .scalar v => sStr v
  | .ptr none => "~"
  | .ptr (some v) => sStr v
  | .slice vs => "L(" ++ "+".intercalate (vs.map sStr) ++ ")"
  | .array vs => "L(" ++ "+".intercalate (vs.map sStr) ++ ")"
  | .map kvs => "M(" ++ "+".intercalate (sortStr (kvs.map (fun kv => toHex kv.1 ++ "=" ++ sStr kv.2))) ++ ")"
  | .struct vs => "T(" ++ "+".intercalate (vs.map sStr) ++ ")"
  | .ptrStruct none => "~"
  | .ptrStruct (some vs) => "T(" ++ "+".intercalate (vs.map sStr) ++ ")"

def valStr (v : Val) : String := "/".intercalate ([toHex v.id, toHex v.parent] ++ v.fields.map fStr)

def isNaN (bits : Nat) : Bool := (f64 bits).isNaN

def cpStr (p : Point) : String :=
  ",".intercalate [toHex p.type, toHex p.key, (if isNaN p.value then "nan" else toString p.value), toHex p.text, toString p.tomb]

def cpsStr (ps : List Point) (sorted : Bool) : String :=
  if ps.isEmpty then "-" else ";".intercalate (if sorted then sortStr (ps.map cpStr) else ps.map cpStr)

def parseCps (s : String) : Option (List Point) :=
  if s == "-" || s == "" then some [] else
  (s.splitOn ";").mapM (fun x => match x.splitOn "," with
    | [t, k, v, tx, tb] => do
      pure { type := ← ofHex t, key := ← ofHex k, value := ← (if v == "nan" then some 0x7ff8000000000001 else v.toNat?),
             text := ← ofHex tx, tomb := ← tb.toInt? }
    | _ => none)

end Driver.Cfg
