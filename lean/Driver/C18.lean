import Driver.Util
import Siot.Spec.ModbusSpec
namespace Driver.C18
open Siot Siot.Modbus Driver

def parseValidator (s : String) : Option (Nat → Bool) :=
  if s == "n" then some (fun _ => true)
  else if s == "e" then some (fun v => v % 2 == 0)
  else if s == "x" then some (fun _ => false)
  else if s.startsWith "l" then (s.drop 1).toNat?.map (fun n => fun v => decide (v < n))
  else none

/-- mirrors the harness' construction: AddReg (no duplicates), WriteReg (last value wins),
    then AddRegValueValidator for the kinds other than `n` (last one wins) -/
def buildRegs (specs : List (Nat × Nat × String)) : Option Regs := do
  let mut rs : Regs := []
  for (a, v, _) in specs do
    if rs.any (fun r => r.addr == a) then
      rs := rs.map (fun r => if r.addr == a then { r with val := v } else r)
    else
      rs := rs ++ [⟨a, v, fun _ => true⟩]
  for (a, _, k) in specs do
    if k != "n" then
      let f ← parseValidator k
      rs := rs.map (fun r => if r.addr == a then { r with valid := f } else r)
  pure rs

def parseSpecs (s : String) : Option (List (Nat × Nat × String)) :=
  (parseList s).mapM (fun x => match x.splitOn ":" with
    | [a, v, k] => do pure ((← a.toNat?), (← v.toNat?), k)
    | _ => none)

def regsStr (rs : Regs) : String :=
  let sorted := (rs.map (fun r => (r.addr, r.val))).toArray.qsort (fun a b => a.1 < b.1) |>.toList
  if sorted.isEmpty then "-" else ",".intercalate (sorted.map (fun (a, v) => s!"{a}:{v}"))

def outStr : Outcome → String
  | .normal fc d => s!"N {fc} {toHex d}"
  | .exception fc c => s!"E {fc} {c}"
  | .tooShort => "T"
  | .panic m => "PANIC " ++ m

def respStr : Spec.Resp → String
  | .normal fc d => s!"N {fc} {toHex d}"
  | .exception fc c => s!"E {fc} {c}"
  | .none => "T"

def handle (args : List String) (impl : String) : Verdict :=
  match args with
  | [regs, fc, d] =>
    match parseSpecs regs >>= buildRegs, fc.toNat?, ofHex d with
    | some rs, some fc, some d =>
      let (o, rs') := processRequest rs fc d
      let m := outStr o ++ " | " ++ regsStr rs'
      let sp := Spec.respond rs fc d
      let (implResp, implRegs) := match impl.splitOn " | " with
        | [a, b] => (a, b)
        | _ => (impl, "")
      let okResp := implResp == respStr sp.resp
      let okRegs := match sp.regs with | some r => implRegs == regsStr r | none => true
      { model := m, spec := some (okResp && okRegs),
        note := if okResp && okRegs then "" else
          (if impl.startsWith "PANIC" then "class=panic" else if !okResp then "class=response-not-per-spec" else "class=registers-changed") }
    | _, _, _ => bad "C18 parse"
  | _ => bad "C18 arity"

end Driver.C18
