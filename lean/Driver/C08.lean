import Driver.Store
import Driver.C06
import Siot.Model.Feed
namespace Driver.C08
open Siot Siot.Store Siot.Feed Driver Driver.StoreD

def vdevT : Bytes := strBytes "vdev"
def vchildT : Bytes := strBytes "vchild"

def toldStr : Told → String
  | .points n pts => s!"P:{toHex n}:{joinOr (pts.map spStr) "+"}"
  | .edgePoints n par pts => s!"E:{toHex n}:{toHex par}:{joinOr (pts.map spStr) "+"}"
  | .restart => "RESTART"

def groupOp : Option (List Op) :=
  parseOps s!"ep:{toHex (strBytes "G")}:{toHex (strBytes "R")}:{toHex nodeTypeT},-,0,{toHex (strBytes "group")},50,0,-,-"

/-- run the observed writes, collecting for every client what it is told -/
def observe (clients : List (Bytes × Bytes)) : St → List Op → St × List String × List (List Told)
  | st, [] => (st, [], clients.map (fun _ => []))
  | st, op :: ops =>
    let (st1, r) := runOps st [op]
    let ok := r == ["ok"]
    let w : Option Write := match op with
      | .np n pts => some (.np n pts)
      | .ep n par pts => some (.ep n (if par.isEmpty then rootS else par) pts)
      | .up _ _ => none
    let here := clients.map (fun c => match w with
      | some w => if ok then told evenVal st1 c.2 w else []
      | none => [])
    let (st2, rs, rest) := observe clients st1 ops
    (st2, r ++ rs, (here.zip rest).map (fun x => x.1 ++ x.2))

def handle (args : List String) (impl : String) : Verdict :=
  match args with
  | [c] =>
    let (treeS, raceS, obsS) : String × String × String := match c.splitOn "|" with
      | [t, o] => (t, "", o)
      | [t, w, o] => (t, w, o)
      | _ => ("", "", "")
    if treeS == "" then bad "C08 case" else
      match groupOp, parseOps treeS, (if obsS == "-" then some [] else parseOps obsS), (if raceS == "" then some [] else parseOps raceS) with
      | some g, some tree, some obs0, some raceOps =>
        -- a race case: the client is constructed from the state BEFORE the race write, so the write is
        -- part of the history it should be told about
        let obs := raceOps ++ obs0
        let (st0, _) := runOps C06.st0 (g ++ tree)
        let clients := ((st0.edges.filter (fun e => e.typ == vdevT)).map (fun e => (e.up, e.down)))
        let keyOfC := fun (c : Bytes × Bytes) => C06.idStr c.1 ++ "-" ++ C06.idStr c.2
        let clients := (clients.toArray.qsort (fun a b => keyOfC a < keyOfC b)).toList
        let (_, rs, tolds) := observe clients st0 obs
        -- fold: in scope when every accepted node-point write on the client's node or one of its vchild
        -- children was delivered to it (nothing authored by the client itself)
        let implFold := fun (k : String) =>
          match (impl.splitOn (k ++ "=[")).getD 1 "" |>.splitOn "] fold=" with
          | _ :: rest :: _ => ((rest.splitOn " ").headD "")
          | _ => "?"
        let inScope := fun (cl : Bytes × Bytes) =>
          obs.all (fun op => match op with
            | .np n pts =>
              let mine := n == cl.2 || st0.edges.any (fun e => e.up == cl.2 && e.down == n && e.typ == vchildT)
              !mine || !echo cl.2 n pts
            | .ep n par pts => !(n == cl.2 && par == cl.1) || !pts.isEmpty
            | _ => true)
        let parts := (clients.zip tolds).map (fun x =>
          let k := keyOfC x.1
          let fold := if inScope x.1 then "same" else implFold k
          s!"{k}=[{joinOr (x.2.map toldStr) "|"}] fold={fold}")
        let m := ",".intercalate rs ++ " ## " ++ " ; ".intercalate parts
        -- specification on the implementation's log, independently of the model's walk:
        --  (1) every foreign batch (all origins set and different from the client) written to a node at or
        --      below the client appears in the client's log, (2) no batch authored by the client appears,
        --  (3) everything in the log was written at or below the client, (4) order of first appearances
        --      follows the order of the writes
        let implLog := fun (k : String) =>
          match (impl.splitOn (k ++ "=[")).getD 1 "" |>.splitOn "] fold=" with
          | l :: _ :: _ => if l == "-" then [] else l.splitOn "|"
          | _ => []
        let okAll := clients.all (fun cl =>
          let log := implLog (keyOfC cl)
          let lv := liveEdges evenVal st0
          let below := fun (n : Bytes) => (C06.closure lv n).contains cl.2
          let writes := obs.filterMap (fun op => match op with
            | .np n pts => some (toldStr (.points n pts), n, pts, true)
            | .ep n par pts => some (toldStr (.edgePoints n par pts), n, pts, false)
            | _ => none)
          -- a batch with a not-a-number value is refused by the store as a whole: the client is told nothing of it
          let refused := fun (pts : List Store.Point) => pts.any (fun p => isNaN p.value)
          let c1 := writes.all (fun w =>
            let (s, n, pts, isNode) := w
            let foreign := pts.all (fun p => !p.origin.isEmpty && p.origin != cl.2)
            if refused pts then !log.contains s
            else if below n && (foreign || !isNode) then log.contains s else true)
          let c2 := writes.all (fun w =>
            let (s, n, pts, isNode) := w
            let own := isNode && !pts.isEmpty && pts.all (fun p => (p.origin.isEmpty && n == cl.2) || p.origin == cl.2)
            if own then !log.contains s else true)
          let c3 := log.all (fun s => writes.any (fun w => w.1 == s && below w.2.1))
          let firsts := ((writes.filter (fun w => !refused w.2.2.1)).map (·.1)).filter (fun s => log.contains s)
          let c4 := (log.eraseDups) == (firsts.eraseDups)
          c1 && c2 && c3 && c4)
        let foldOk := clients.all (fun cl => !inScope cl || implFold (keyOfC cl) == "same")
        let ok := okAll && foldOk
        -- classification of a race case: everything but the race write is as specified
        let raceOnly := !raceOps.isEmpty && clients.all (fun cl =>
          let log := implLog (keyOfC cl)
          let lv := liveEdges evenVal st0
          let below := fun (n : Bytes) => (C06.closure lv n).contains cl.2
          obs0.all (fun op => match op with
            | .np n pts =>
              let foreign := pts.all (fun p => !p.origin.isEmpty && p.origin != cl.2)
              if pts.any (fun p => isNaN p.value) then !log.contains (toldStr (.points n pts))
              else if below n && foreign then log.contains (toldStr (.points n pts)) else true
            | .ep n par pts => if below n then log.contains (toldStr (.edgePoints n par pts)) else true
            | _ => true))
        { model := m, spec := some ok,
          note := if ok then "" else if raceOnly then "class=write-between-construct-and-subscribe"
            else if !okAll then "class=client-feed-wrong" else "class=fold-differs-from-store" }
      | _, _, _, _ => bad "C08 ops"
  | _ => bad "C08 arity"

end Driver.C08
