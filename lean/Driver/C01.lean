import Driver.Store
import Siot.Model.Rebroadcast
namespace Driver.C01
open Siot Siot.Store Driver Driver.StoreD

/-- C01: every touched owner holds exactly the newest delivered point per identity, all fields -/
def handleC01 (args : List String) (impl : String) : Verdict :=
  match parseCase args impl with
  | some p =>
    let (m, _, rs) := modelObs p
    -- deliveries accepted by the implementation (refused batches leave no trace: C05)
    let deliveries := (p.ops.zip p.implRes).filter (fun x => x.2 == "ok")
    let nodeIds := (deliveries.filterMap (fun x => match x.1 with | .np id _ => some id | _ => none)).eraseDups
    let edgeIds := (deliveries.filterMap (fun x => match x.1 with
      | .ep id par _ => some ((if par.isEmpty then rootS else par), id) | _ => none)).eraseDups
    let okNodes := nodeIds.all (fun id =>
      let del := deliveries.flatMap (fun x => match x.1 with | .np i ps => if i == id then ps else [] | _ => [])
      c01Expected (ptsOf p.st0 id) del == sortS ((ptsOf p.implSt id).map spStr))
    let okEdges := edgeIds.all (fun ud =>
      let del := deliveries.flatMap (fun x => match x.1 with
        | .ep i par ps => if ((if par.isEmpty then rootS else par), i) == ud then ps.filter (fun q => q.type != nodeTypeT) else [] | _ => [])
      c01Expected (eptsOf p.st0 ud.1 ud.2) del == sortS ((eptsOf p.implSt ud.1 ud.2).map spStr))
    let ok := okNodes && okEdges
    let dupRows := (p.implSt.nodePts.map (fun r => (r.1, r.2.type, normKey r.2.key))).length !=
        ((p.implSt.nodePts.map (fun r => (r.1, r.2.type, normKey r.2.key))).eraseDups).length ||
      (p.implSt.edgePts.map (fun r => (r.1, r.2.type, normKey r.2.key))).length !=
        ((p.implSt.edgePts.map (fun r => (r.1, r.2.type, normKey r.2.key))).eraseDups).length
    { model := m, spec := some ok,
      note := if ok then "" else if dupRows then "class=duplicate-row-for-identity" else "class=read-is-not-newest" }
  | none => bad "C01 parse"

/-- C03: every stored edge hash equals the from-scratch Merkle hash of the reported content -/
def handleC03 (args : List String) (impl : String) : Verdict :=
  match parseCase args impl with
  | some p =>
    let (m, _, _) := modelObs p
    let consistent := hashInv p.implSt
    -- "a store verification finds nothing to repair": on a consistent store, verification in repair mode changes no hash
    let verifyOk := p.verify.isNone || p.verify == some "verify=same"
    let ok := consistent && verifyOk
    let nullVal := (impl.splitOn ",null,").length > 1
    { model := m, spec := some ok, note := if ok then "" else if nullVal then "class=null-value" else if !consistent then "class=hash-mismatch"
        else "class=verification-changes-consistent-store" }
  | none => bad "C03 parse"

end Driver.C01

namespace Driver.C01
open Siot Siot.Store Driver Driver.StoreD

/-- which requests the property says must be refused (computed from the request and the state) -/
def mustRefuse (st : St) : Op → Bool
  | .np _ pts => pts.any (fun p => isNaN p.value)
  | .ep id par pts =>
    let u := if par.isEmpty then rootS else par
    id == par || (id == st.root && pts.any (fun p => p.type == tombstoneT && isPos p.value)) ||
    pts.any (fun p => isNaN p.value) ||
    (((st.edges.find? (fun e => e.up == u && e.down == id)).isNone) &&
      ((ancestors (2 ^ st.edges.length) st.edges u).contains id || !(pts.any (fun p => p.type == nodeTypeT && !p.text.isEmpty))))
  | .up _ _ => false

/-- C05 (store level): the requests that must be refused are refused, and the final content is
    exactly what the accepted requests alone produce (a refused request leaves no trace) -/
def handleC05 (args : List String) (impl : String) : Verdict :=
  match parseCase args impl with
  | some p =>
    let (m, _, _) := modelObs p
    -- replay only what the implementation accepted
    let accepted := ((p.ops.zip p.implRes).filter (fun x => x.2 != "err")).map (·.1)
    let (stAcc, _) := runOps p.st0 accepted
    let noTrace := dumpStr stAcc == p.implDump
    -- refusal obligations, evaluated along the model's states
    let rec chk (st : St) : List (Op × String) → Bool
      | [] => true
      | (op, r) :: rest =>
        let ok := if mustRefuse st op then r == "err" else true
        let st' := (runOps st [op]).1
        ok && chk st' rest
    let refused := chk p.st0 (p.ops.zip p.implRes)
    -- "the instance keeps answering later requests": a node-point batch without a NaN is always acceptable,
    -- an edge-point batch on an existing edge that is none of the refusable kinds as well
    let rec answers (st : St) : List (Op × String) → Bool
      | [] => true
      | (op, r) :: rest =>
        let fine := match op with
          | .np _ pts => pts.any (fun q => isNaN q.value) || r == "ok"
          | .ep id par pts =>
            let u := if par.isEmpty then rootS else par
            mustRefuse st op || (st.edges.find? (fun e => e.up == u && e.down == id)).isNone || r == "ok"
          | .up _ _ => true
        fine && answers (runOps st [op]).1 rest
    let answered := answers p.st0 (p.ops.zip p.implRes)
    let ok := noTrace && refused && hashInv p.implSt && answered
    { model := m, spec := some ok,
      note := if ok then "" else if !refused then "class=bad-write-accepted" else if !answered then "class=later-request-not-served"
        else if !noTrace then "class=refused-write-left-trace" else "class=hash-mismatch" }
  | none => bad "C05 parse"

/-- C05 moves and mirrors through the client library (`client.MoveNode` / `client.MirrorNode`) on the instance of the
    rebroadcast cases (root "R"): a move or mirror below the node itself or below one of its descendants must be answered
    with an error, rebroadcast nothing and leave every edge of the node as it was; a legal one succeeds and leaves the
    node live under the new parent (and, for a move, deleted under the old one). -/
def handleC05Move (c : String) (impl : String) : Verdict :=
  let st0 : St := { root := strBytes "R", edges := [⟨rootS, strBytes "R", strBytes "device", 0⟩] }
  match c.splitOn "|", impl.splitOn " ## " with
  | [setup, fin], [resS, subsS, edgesS] =>
    match parseOps setup with
    | some sops =>
      let (st1, rs1) := runOps st0 sops
      let f := fin.splitOn ":"
      match f.headD "", (f.getD 1 "" |> ofHex), (f.getD 2 "" |> ofHex), (if f.length > 3 then ofHex (f.getD 3 "") else some []) with
      | kind, some id, some p2, some p3 =>
        let (old, new) := if kind == "mv" then (p2, p3) else ([], p2)
        let typ := ((st1.edges.find? (fun e => e.down == id)).map (·.typ)).getD []
        let exists_ := st1.edges.any (fun e => e.down == id)
        let now : Int := 2000000000000000000
        let creation : Op := .ep id new [{ type := tombstoneT, time := now }, { type := nodeTypeT, text := typ, time := now }]
        let (st2, r2) := runOps st1 [creation]
        let accepted := r2 == ["ok"] && exists_ && !(kind == "mv" && new == old)
        let st3 := if accepted && kind == "mv" then
            (runOps st2 [.ep id old [{ type := tombstoneT, value := 4607182418800017408, time := now + 1 }]]).1
          else if accepted then st2 else st1
        let edgesOf := fun (st : St) => sortS ((st.edges.filter (fun e => e.down == id)).map (fun e =>
          toHex e.up ++ "=" ++ toString (edgeTomb st e)))
        let m := ",".intercalate (rs1 ++ [if accepted then "ok" else "err"]) ++ " ## " ++
          (if accepted then subsS else "-") ++ " ## " ++ joinOr (edgesOf st3) ","
        -- specification, from the graph alone: below itself or below a descendant (through edges of any state)
        let desc : List Bytes := (List.range (st1.edges.length + 1)).foldl (fun acc _ =>
          (acc ++ (st1.edges.filter (fun e => acc.contains e.up)).map (·.down)).eraseDups) [id]
        let mustRefuse := desc.contains new
        let implOk := (resS.splitOn ",").getLast? == some "ok"
        let ok := if mustRefuse then !implOk && subsS == "-" && edgesS == joinOr (edgesOf st1) ","
          else if accepted then implOk && edgesS == joinOr (edgesOf st3) "," else true
        { model := m, spec := some ok,
          note := if ok then "" else if mustRefuse && implOk then "class=bad-write-accepted"
            else if mustRefuse then "class=refused-write-left-trace" else "class=legal-move-not-carried-out" }
      | _, _, _, _ => bad "C05 move op"
    | none => bad "C05 move setup"
  | _, _ => bad "C05 move parse"

end Driver.C01
