import Driver.Util
/- canonical point text form shared by several properties (driver side) -/
namespace Driver
open Siot

structure Pt where
  type : Bytes
  key : Bytes
  value : Option UInt64     -- none = NaN (payload not compared)
  text : Bytes
  time : Int
  tomb : Int
  origin : Bytes
  data : Bytes
  deriving BEq, Repr, Inhabited

def Pt.str (p : Pt) : String :=
  ",".intercalate [toHex p.type, toHex p.key,
    (match p.value with | some v => toString v.toNat | none => "nan"),
    toHex p.text, toString p.time, toString p.tomb, toHex p.origin, toHex p.data]

def parsePt (s : String) : Option Pt :=
  match s.splitOn "," with
  | [t, k, v, tx, tm, tb, o, d] => do
    let t ← ofHex t
    let k ← ofHex k
    let v ← if v == "nan" then some none else (v.toNat?).map (fun n => some (UInt64.ofNat n))
    let tx ← ofHex tx
    let tm ← tm.toInt?
    let tb ← tb.toInt?
    let o ← ofHex o
    let d ← ofHex d
    pure ⟨t, k, v, tx, tm, tb, o, d⟩
  | _ => none

def parsePts (s : String) : Option (List Pt) :=
  if s == "-" || s == "" then some [] else (s.splitOn ";").mapM parsePt

def ptsStr (ps : List Pt) : String :=
  if ps.isEmpty then "-" else ";".intercalate (ps.map Pt.str)

def validUtf8 (b : Bytes) : Bool := ByteArray.validateUTF8 ⟨b.toArray⟩

/-- float64 bits → float32 → float64 bits (Go `float64(float32(v))`); none for NaN -/
def narrow32 (v : Option UInt64) : Option UInt64 :=
  match v with
  | none => none
  | some b =>
    let f := (Float.ofBits b).toFloat32.toFloat
    if f.isNaN then none else some f.toBits

end Driver
