import Driver.Cfg
namespace Driver.C10
open Siot Siot.Config Driver Driver.Cfg

def sWF (k : SKind) (v : SVal) : Bool :=
  match k, v with
  | .int _, .i x => decide (-maxSafeInteger ≤ x) && decide (x ≤ maxSafeInteger)
  | .uint _, .u x => decide ((x : Int) ≤ maxSafeInteger)
  | .f64, .f b => !(isNaN b) && b != 0x8000000000000000
  | .f32, .f b => !((Float32.ofBits (UInt32.ofNat b)).isNaN) && b != 0x80000000
  | _, _ => true

/-- the supported universe of C10: sizes and integers within the documented limits, non-empty map
    keys, no NaN / negative zero (float equality is by value in DiffPoints) -/
def fWF (ty : FieldTy) (v : FVal) : Bool :=
  match ty, v with
  | .scalar k, .scalar x => sWF k x
  | .ptr k, .ptr (some x) => sWF k x
  | .ptr _, .ptr none => true
  | .slice k, .slice xs => xs.length ≤ maxStructureSize && xs.all (sWF k)
  | .array _ k, .array xs => xs.length ≤ maxStructureSize && xs.all (sWF k)
  | .map k, .map kvs => kvs.length ≤ maxStructureSize && kvs.all (fun kv => !kv.1.isEmpty && sWF k kv.2)
  | .struct fs, .struct xs => (fs.zip xs).all (fun fx => sWF fx.1.2 fx.2)
  | .ptrStruct fs, .ptrStruct (some xs) => (fs.zip xs).all (fun fx => sWF fx.1.2 fx.2)
  | .ptrStruct _, .ptrStruct none => true
  | _, _ => false

def wf (T : Ty) (v : Val) : Bool := (T.zip v.fields).all (fun fx => fWF fx.1.ty fx.2)

def decOut (d : DecodeOut) : String :=
  match d.panic with
  | some m => "PANIC " ++ m
  | none => (if d.err then "err " else "ok ") ++ valStr d.val

def handle (args : List String) (impl : String) : Verdict :=
  match args with
  | ["enc", t, v] =>
    match parseTy t >>= fun T => (parseVal T v).map (fun x => (T, x)) with
    | some (T, x) =>
      let m := match encode num T x with
        | .ok ne => "ok " ++ cpsStr ne.points true ++ " | " ++ cpsStr ne.edgePoints true
        | .err _ => "err" | .panic p => "PANIC " ++ p
      { model := m, spec := if wf T x then some (impl.startsWith "ok") else none,
        note := if wf T x && !impl.startsWith "ok" then "class=encode-error-in-universe" else "" }
    | none => bad "C10 enc"
  | ["rt", t, v] =>
    match parseTy t >>= fun T => (parseVal T v).map (fun x => (T, x)) with
    | some (T, x) =>
      let m := match encode num T x with
        | .ok ne => decOut (decode num T ne (zero T))
        | .err _ => "encerr" | .panic p => "PANIC " ++ p
      let inU := wf T x
      let ok := impl == "ok " ++ valStr x
      let emptyKey := (T.zip x.fields).any (fun fx => match fx.2 with | .map kvs => kvs.any (fun kv => kv.1.isEmpty) | _ => false)
      { model := m, spec := if inU then some ok else (if emptyKey then some ok else none), inScope := inU || emptyKey,
        note := if ok then "" else if emptyKey then "class=empty-map-key" else "class=roundtrip-mismatch" }
    | none => bad "C10 rt"
  | ["rtc", t, v, kf, ch] =>
    -- child lists: node + children decoded into the zero value extended by the child fields
    let kids : Option (List ChildField) :=
      if kf == "-" then some [] else (kf.splitOn ";").mapM (fun ks => match ks.splitOn "@" with
        | [c, kt] => do pure { ctype := ← ofHex c, ty := ← parseTy kt }
        | _ => none)
    match parseTy t >>= fun T => (parseVal T v).map (fun x => (T, x)), kids with
    | some (T, x), some kfs =>
      let tyOf := fun (ct : Bytes) => ((kfs.find? (fun k => k.ctype == ct)).orElse (fun _ => kfs.head?)).map (·.ty)
      let chs : Option (List (Bytes × Ty × Val)) :=
        if ch == "-" then some [] else (ch.splitOn ",").mapM (fun cs => match cs.splitOn "@" with
          | [c, cv] => do
            let ct ← ofHex c
            let kt ← tyOf ct
            pure (ct, kt, ← parseVal kt cv)
          | _ => none)
      match chs with
      | some chs =>
        let kidStr := fun (ks : List (List Val)) =>
          " #" ++ String.join ((kfs.zip ks).map (fun (k, vs) => " " ++ toHex k.ctype ++ "=[" ++ ",".intercalate (vs.map valStr) ++ "]"))
        let encKids : Res (List (Bytes × NodeEdge)) := mapM' (fun (c : Bytes × Ty × Val) =>
          match encode num c.2.1 c.2.2 with | .ok ne => .ok (c.1, ne) | .err e => .err e | .panic p => .panic p) chs
        let m := match encode num T x, encKids with
          | .ok ne, .ok cs =>
            let r := decodeC num T kfs ne cs (zero T) (kfs.map (fun _ => []))
            decOut r.1 ++ kidStr r.2
          | .panic p, _ => "PANIC " ++ p
          | _, .panic p => "PANIC " ++ p
          | _, _ => "encerr"
        let inU := wf T x && chs.all (fun c => wf c.2.1 c.2.2) &&
          (kfs.map (·.ctype)).eraseDups.length == kfs.length
        let want := "ok " ++ valStr x ++ kidStr (kfs.map (fun k => (chs.filter (fun c => c.1 == k.ctype)).map (·.2.2)))
        let ok := impl == want
        { model := m, spec := if inU then some ok else none, inScope := inU,
          note := if ok || !inU then "" else "class=child-list-mismatch" }
      | none => bad "C10 rtc children"
    | _, _ => bad "C10 rtc"
  | ["dec", t, v, ps, es] =>
    match parseTy t >>= fun T => (parseVal T v).map (fun x => (T, x)), parseCps ps, parseCps es with
    | some (T, x), some ps, some es =>
      let d := decode num T { points := ps, edgePoints := es } x
      let noPanic := !impl.startsWith "PANIC" && !impl.startsWith "HANG"
      let ok := noPanic && impl == decOut d
      { model := decOut d, spec := some ok, note := if ok then "" else if !noPanic then "class=decode-panic" else "class=decode-outcome-differs" }
    | _, _, _ => bad "C11 dec"
  | ["mrg", t, v, ps] =>
    match parseTy t >>= fun T => (parseVal T v).map (fun x => (T, x)), parseCps ps with
    | some (T, x), some ps =>
      let m := match mergePoints num T x.id ps x with | some d => decOut d | none => "nomatch"
      -- "either updates the value or returns an error; it never panics": no panic, and the outcome (ok / error and the
      -- value left behind) is the one the verified model of Decode / Merge gives
      let noPanic := !impl.startsWith "PANIC" && !impl.startsWith "HANG"
      let ok := noPanic && impl == m
      { model := m, spec := some ok, note := if ok then "" else if !noPanic then "class=decode-panic" else "class=decode-outcome-differs" }
    | _, _ => bad "C11 mrg"
  | ["mre", t, v, sel, ps] =>
    match parseTy t >>= fun T => (parseVal T v).map (fun x => (T, x)), parseCps ps with
    | some (T, x), some ps =>
      let other := strBytes "-other"
      let id := if sel == "i" then x.id ++ other else if sel == "e" then [] else x.id
      let parent := if sel == "p" then x.parent ++ other else if sel == "n" then [] else x.parent
      let m := match mergeEdgePoints num T id parent ps x with | some d => decOut d | none => "nomatch"
      -- "either updates the value or returns an error; it never panics": no panic, and the outcome (ok / error and the
      -- value left behind) is the one the verified model of Decode / Merge gives
      let noPanic := !impl.startsWith "PANIC" && !impl.startsWith "HANG"
      let ok := noPanic && impl == m
      { model := m, spec := some ok, note := if ok then "" else if !noPanic then "class=decode-panic" else "class=decode-outcome-differs" }
    | _, _ => bad "C11 mre"
  | ["dm", t, a, b] =>
    match parseTy t >>= fun T => (parseVal T a).bind (fun x => (parseVal T b).map (fun y => (T, x, y))) with
    | some (T, x, y) =>
      let m := match diff num T x.fields y.fields with
        | .ok pts =>
          cpsStr pts true ++ " | " ++ (match mergePoints num T x.id pts x with | some d => decOut d | none => "nomatch")
        | .err _ => "differr" | .panic p => "PANIC " ++ p
      let inU := wf T x && wf T y
      let ok := impl.endsWith ("| ok " ++ valStr y)
      { model := m, spec := if inU then some ok else none, inScope := inU, note := if ok || !inU then "" else "class=merge-diff-mismatch" }
    | none => bad "C10 dm"
  | _ => bad "C10 arity"

end Driver.C10
