import Driver.Store
import Driver.C06
import Driver.C08
import Siot.Model.Export
namespace Driver.C15
open Siot Siot.Store Siot.Export Driver Driver.StoreD

def isDel (bits : Nat) : Bool := bits != 0
def freshId (k : Nat) : Bytes := strBytes s!"\x01fresh{k}"

def ptStr (p : Store.Point) : String :=
  ",".intercalate [toHex p.type, toHex p.key, (if isNaN p.value then "nan" else toString p.value), toHex p.text, toString p.tomb, toHex p.data]

def sortPts (ps : List Store.Point) : List Store.Point :=
  (ps.toArray.qsort (fun a b => a.type < b.type || (a.type == b.type && a.key < b.key))).toList

/-- walk the subtree below `parent` like the harness does: non-deleted children in edge order -/
partial def walk (st : St) (parent : Bytes) (d : Nat) : List (Nat × Edge) :=
  if d > 12 then [] else
  ((Auth.live isDel st).filter (fun e => e.up == parent)).flatMap (fun e => (d, e) :: walk st e.down (d + 1))

def dump (st : St) (top : Bytes) (rename : Bool) : String := Id.run do
  let nodes := walk st top 0
  let mut names : List (Bytes × String) := []
  let mut out : List String := []
  for (d, e) in nodes do
    let mut nm : Bytes → (List (Bytes × String)) → (String × List (Bytes × String)) := fun id ns =>
      if !rename || id == top || id == strBytes "R" then (toHex id, ns)
      else match ns.find? (fun x => x.1 == id) with
        | some x => (x.2, ns)
        | none => (s!"#{ns.length}", ns ++ [(id, s!"#{ns.length}")])
    let (idn, n1) := nm e.down names
    let (par, n2) := nm e.up n1
    names := n2
    let mut ps : List String := []
    for p in sortPts (ptsOf st e.down) do
      if p.type == nodeIDT && !p.text.isEmpty then
        let (r, n3) := if rename then nm p.text names else (toHex p.text, names)
        names := n3
        ps := ps ++ [",".intercalate [toHex p.type, toHex p.key, toString p.value, "@" ++ r, toString p.tomb, toHex p.data]]
      else ps := ps ++ [ptStr p]
    let es := (sortPts (eptsOf st e.up e.down)).filter (fun p => !(p.type == tombstoneT && (p.value == 0 || p.value == negZero)))
    out := out ++ [s!"{d},{idn},{toHex e.typ},{par}[{"+".intercalate ps}][{"+".intercalate (es.map ptStr)}]"]
  return joinOr out ";"

/-- texts that goccy/go-yaml v1.11.2 does not carry through a Marshal/Unmarshal round trip of the export structure
    (open finding), as measured on the unchanged code: a carriage return; a tab at the end of the text (trailing
    blanks aside); a BEL next to a leading or trailing blank; "-" or a leading "- " / "? " followed by something; and the
    plain spellings of null, infinity and not-a-number. (Line feeds, other control characters, U+0085 / U+2028 /
    U+2029 and tabs inside a text DO survive and are not part of the class.) -/
def yamlHostile (p : Store.Point) : Bool :=
  let t := p.text
  let s := String.mk (t.map (fun c => Char.ofNat c.toNat))
  let noTrail := (t.reverse.dropWhile (· == 32)).reverse
  t.any (· == 13) ||
  noTrail.getLast? == some 9 ||
  (t.any (· == 7) && (t.head? == some 32 || t.getLast? == some 32)) ||
  s == "-" || (s.startsWith "- " && s.length > 2) || (s.startsWith "? " && s.length > 2) ||
  ["null", "Null", "NULL", "~"].contains s ||
  [".inf", ".Inf", ".INF", "-.inf", "-.Inf", "-.INF", ".nan", ".NaN", ".NAN"].contains s

def handle (args : List String) (impl : String) : Verdict :=
  match args with
  | [c] =>
    let fs := c.splitOn "|"
    let del := fs.getD 4 "" == "d"
    match fs.take 4 with
    | [opsS, expS, mode, _where] =>
      let grp := fun (id : String) => parseOps s!"ep:{toHex (strBytes id)}:{toHex (strBytes "R")}:{toHex nodeTypeT},-,0,{toHex (strBytes "group")},50,0,-,-"
      match grp "G", grp "H", parseOps opsS, ofHex expS with
      | some g, some hgrp, some ops, some expId =>
        let (stA, _) := runOps C06.st0 (g ++ ops)
        let top := strBytes "H"
        match exportNodes isDel stA expId with
        | none => { model := "err export", spec := some (impl == "err export") }
        | some flat =>
          -- "d": every node below the exported one is deleted after the export (its edge gets tombstone 1 at time 5000)
          let delOps : List Op := if del then (flat.filter (fun x => decide (1 ≤ x.1))).map (fun x =>
            Op.ep x.2.id x.2.parent [{ type := tombstoneT, value := 4607182418800017408, time := 5000 }]) ++
            -- and every point of the exported node itself is deleted (tombstone 1, time 5000)
            (match (ptsOf stA expId).map (fun q => ({ type := q.type, key := q.key, tomb := 1, time := 5000 } : Store.Point)) with
             | [] => []
             | dps => [Op.np expId dps]) else []
          -- target state: the same instance, or a fresh one
          let (stT, _) := if _where == "a" then runOps stA (hgrp ++ delOps) else runOps C06.st0 hgrp
          let hostile := flat.any (fun x => x.2.pts.any yamlHostile || x.2.epts.any yamlHostile)
          -- the YAML file carries no time stamps: what ImportNodes sends is stamped by the store at the import
          let noTime := fun (ps : List Store.Point) => ps.map (fun q => { q with time := 0 })
          let flatFile : Flat := flat.map (fun x => (x.1, { x.2 with pts := noTime x.2.pts, epts := noTime x.2.epts }))
          let res := importNodes isDel freshId stT top flatFile (mode == "p") 1000000
          let m := match res with
            | .ok st' => dump st' top (mode == "n")
            | .err "ids" => "err ids"
            | .err "no nodes" => "err no nodes"
            | .err e => "err send " ++ e
            | .panic e => "PANIC " ++ e
          -- specification, on the implementation's dump: same shape, types, points and edge points as the
          -- exported tree, ids renamed consistently (checked through the canonical renaming), marker on
          -- the top description only; computed from the SOURCE state, not from the model's import
          let srcNodes := flat
          let want : List String := Id.run do
            let mut names : List (Bytes × String) := []
            let mut out : List String := []
            let mut anc : List String := []
            for (d, n) in srcNodes do
              let nm : Bytes → (List (Bytes × String)) → (String × List (Bytes × String)) := fun id ns =>
                if mode != "n" then (toHex id, ns)
                else match ns.find? (fun x => x.1 == id) with
                  | some x => (x.2, ns)
                  | none => (s!"#{ns.length}", ns ++ [(id, s!"#{ns.length}")])
              let (idn, n1) := nm n.id names
              names := n1
              let par := if d == 0 then toHex top else anc.getD (d - 1) "?"
              anc := anc.take d ++ [idn]
              let mut ps : List String := []
              for p0 in sortPts (n.pts.map normPoint) do
                let p := if d == 0 && p0.type == descriptionT then { p0 with text := p0.text ++ importMark } else p0
                if p.type == nodeIDT && !p.text.isEmpty then
                  let (r, n3) := nm p.text names
                  names := n3
                  ps := ps ++ [",".intercalate [toHex p.type, toHex p.key, toString p.value, "@" ++ r, toString p.tomb, toHex p.data]]
                else ps := ps ++ [ptStr p]
              let es := (sortPts (n.epts.map normPoint)).map ptStr
              out := out ++ [s!"{d},{idn},{toHex n.typ},{par}[{"+".intercalate ps}][{"+".intercalate es}]"]
            return out
          -- a node that occurs twice in the export (mirror inside the subtree) is written twice; its
          -- second occurrence shows the same points: the flat comparison still applies
          -- the exported file of a tree without mirrors is the pre-order list of its own parent-pointer tree
          -- (the premise under which c15_reexport says that exporting the imported tree gives the file back)
          let mirrorFree := (flat.map (·.2.id)).eraseDups.length == flat.length
          let selfR := !mirrorFree || SelfRebuilding (prepTop (flat.headD (0, ⟨[], [], [], [], []⟩)).2.parent flat)
          let okSpec := impl == joinOr want ";" && selfR
          let yamlErr := impl == "err yaml"
          { model := m, spec := some okSpec,
            note := if okSpec then (if mirrorFree then "info=file-is-its-own-traversal" else "info=mirror-in-file")
              else if !selfR then "class=export-not-preorder-of-own-tree" else if hostile then "class=yaml-scalar-not-carried"
              else if yamlErr then "class=yaml-error-on-plain-content" else "class=import-differs-from-export" }
      | _, _, _, _ => bad "C15 ops"
    | _ => bad "C15 case"
  | _ => bad "C15 arity"

end Driver.C15
