import Driver.Util
import Siot.Model.Store
/- driver side of the store op-sequence cases (C01, C03, C05, C06) -/
namespace Driver.StoreD
open Siot Siot.Store Driver

def parseSP (s : String) : Option (Store.Point × Bool) :=
  match s.splitOn "," with
  | [t, k, v, tx, tm, tb, o, d] => do
    let (bits, null) ← if v == "nan" then some (0x7ff8000000000001, false) else if v == "null" then some (0, true)
      else (v.toNat?).map (fun n => (n, false))
    pure ({ type := ← ofHex t, key := ← ofHex k, value := bits, text := ← ofHex tx, time := ← tm.toInt?, tomb := ← tb.toInt?,
            origin := ← ofHex o, data := ← ofHex d }, null)
  | _ => none

def parseSPs (s : String) : Option (List Store.Point) :=
  if s == "-" || s == "" then some [] else ((s.splitOn "+").mapM parseSP).map (·.map (·.1))

def spStr (p : Store.Point) : String :=
  ",".intercalate [toHex p.type, toHex p.key, (if isNaN p.value then "nan" else toString p.value), toHex p.text,
    toString p.time, toString p.tomb, toHex p.origin, toHex p.data]

def sortS (l : List String) : List String := (l.toArray.qsort (· < ·)).toList
def joinOr (l : List String) (sep : String) : String := if l.isEmpty then "-" else sep.intercalate l

def parseDump (s : String) : Option St :=
  match s.splitOn " | " with
  | [r, es, ns] => do
    let root ← ofHex ((r.drop 5).toString)
    let mut st : St := { root := root }
    if es != "-" then
      for e in (es.splitOn " ").filter (fun x => x != "E" && x != "") do
        match e.splitOn "/" with
        | [hd, pts] =>
          match hd.splitOn "," with
          | [u, d, t, h] =>
            let u ← ofHex u; let d ← ofHex d; let t ← ofHex t; let h ← h.toNat?
            let ps ← parseSPs pts
            st := { st with edges := st.edges ++ [⟨u, d, t, h⟩], edgePts := st.edgePts ++ ps.map (fun p => ((u, d), p)) }
          | _ => none
        | _ => none
    if ns != "-" then
      for n in (ns.splitOn " ").filter (fun x => x != "N" && x != "") do
        match n.splitOn "/" with
        | [id, pts] =>
          let id ← ofHex id
          let ps ← parseSPs pts
          st := { st with nodePts := st.nodePts ++ ps.map (fun p => (id, p)) }
        | _ => none
    pure st
  | _ => none

def dumpStr (st : St) : String :=
  let es := sortS (st.edges.map (fun e =>
    s!"E {toHex e.up},{toHex e.down},{toHex e.typ},{e.hash}/{joinOr (sortS ((eptsOf st e.up e.down).map spStr)) "+"}"))
  let ids := (st.nodePts.map (·.1)).eraseDups
  let ns := sortS (ids.map (fun id => s!"N {toHex id}/{joinOr (sortS ((ptsOf st id).map spStr)) "+"}"))
  s!"root={toHex st.root} | {joinOr es " "} | {joinOr ns " "}"

inductive Op where
  | np (id : Bytes) (pts : List Store.Point)
  | ep (id parent : Bytes) (pts : List Store.Point)
  | up (id : Bytes) (del : Bool)

def parseOps (s : String) : Option (List Op) :=
  (s.splitOn ";").mapM (fun op => match op.splitOn ":" with
    | ["np", n, ps] => do pure (.np (← ofHex n) (← parseSPs ps))
    | ["ep", n, p, ps] => do pure (.ep (← ofHex n) (← ofHex p) (← parseSPs ps))
    | ["up", n, d] => do pure (.up (← ofHex n) (d == "1"))
    | _ => none)

/-- tombstone value `math.Mod(v, 2) == 0` on bits, via floats (driver only) -/
def evenVal (bits : Nat) : Bool :=
  let x := Float.ofBits (UInt64.ofNat bits)
  let m := x - 2.0 * (x / 2.0).floor
  let m := if x < 0 then x - 2.0 * (x / 2.0).ceil else m
  m == 0.0

def upOf (st : St) (id : Bytes) (del : Bool) : List Bytes :=
  (st.edges.filter (fun e => e.down == id)).filterMap (fun e =>
    if del then some e.up
    else
      let t := (eptsOf st e.up e.down).find? (fun p => p.type == tombstoneT && (p.key == zeroKey || p.key.isEmpty))
      match t with
      | some p => if evenVal p.value then some e.up else none
      | none => some e.up)

def runOps (st : St) : List Op → St × List String
  | [] => (st, [])
  | op :: ops =>
    let (st', r) := match op with
      | .np id pts => (match nodePoints st id pts with | .ok s => (s, "ok") | _ => (st, "err"))
      | .ep id parent pts => (match edgePoints st id parent pts with | .ok s => (s, "ok") | _ => (st, "err"))
      | .up id del => (st, "up=" ++ joinOr (sortS ((upOf st id del).map toHex)) "/")
    let (s2, rs) := runOps st' ops
    (s2, r :: rs)

structure Parsed where
  ops : List Op
  st0 : St
  implRes : List String
  implSt : St
  implDump : String
  d0 : String
  verify : Option String := none     -- what a store verification in repair mode did to the stored hashes ("verify=same" expected)

def parseCase (args : List String) (impl : String) : Option Parsed :=
  match args, impl.splitOn " ## " with
  | [ops], [d0, res, d1] => do
    pure { ops := ← parseOps ops, st0 := ← parseDump d0, implRes := res.splitOn ",", implSt := ← parseDump d1, implDump := d1, d0 := d0 }
  | [ops], [d0, res, d1, v] => do
    pure { ops := ← parseOps ops, st0 := ← parseDump d0, implRes := res.splitOn ",", implSt := ← parseDump d1, implDump := d1, d0 := d0, verify := some v }
  | _, _ => none

def modelObs (p : Parsed) : String × St × List String :=
  let (st, rs) := runOps p.st0 p.ops
  (p.d0 ++ " ## " ++ ",".intercalate rs ++ " ## " ++ dumpStr st ++ (if p.verify.isSome then " ## verify=same" else ""), st, rs)

/-! ### C01 oracle: last write wins per identity, computed from the deliveries alone -/
def newestPerIdentity (pts : List Store.Point) : List Store.Point :=
  let norm := pts.map normPoint
  norm.foldl (fun acc p =>
    match acc.find? (sameId p) with
    | some q => if q.time ≤ p.time then acc.map (fun r => if sameId p r then p else r) else acc
    | none => acc ++ [p]) []

/-- rows expected for an owner: prior rows merged with everything delivered to it, newest per identity -/
def c01Expected (prior delivered : List Store.Point) : List String :=
  sortS ((newestPerIdentity (prior ++ delivered)).map spStr)

end Driver.StoreD
