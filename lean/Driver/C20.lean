import Driver.Store
namespace Driver.C20
open Siot Siot.Store Driver Driver.StoreD

structure WEv where
  inv : Nat
  resp : Nat
  node : String
  kind : String      -- n | e
  key : String
  time : Int
  ok : Bool

structure REv where
  inv : Nat
  resp : Nat
  reader : Nat
  node : String
  times : List (Option Int)    -- identities v/0, v/1, v/2, role
  failed : Bool

def identOf (w : WEv) : Nat := if w.kind == "e" then 3 else (w.key.toNat?).getD 9

def parseEvents (h : String) : List WEv × List REv × List Bool :=
  (h.splitOn ";").foldl (fun (acc : List WEv × List REv × List Bool) ev =>
    match ev.splitOn "," with
    | ["W", i, r, _, n, k, key, t, st] =>
      (acc.1 ++ [⟨i.toNat?.getD 0, r.toNat?.getD 0, n, k, key, t.toInt?.getD 0, st == "ok"⟩], acc.2.1, acc.2.2)
    | ["R", i, r, rd, n, ts] =>
      let failed := ts.startsWith "err"
      let times := if failed then [] else (ts.splitOn "/").map (fun x => x.toInt?)
      (acc.1, acc.2.1 ++ [⟨i.toNat?.getD 0, r.toNat?.getD 0, rd.toNat?.getD 0, n, times, failed⟩], acc.2.2)
    | ["V", _, _, st] => (acc.1, acc.2.1, acc.2.2 ++ [st == "ok"])
    | _ => acc) ([], [], [])

def maxOpt (l : List Int) : Option Int := l.foldl (fun m x => match m with | none => some x | some y => some (max x y)) none

def handle (args : List String) (impl : String) : Verdict :=
  if impl.startsWith "D " then
    -- the store closed under direct concurrent writes: every write returns, Close returns, the file opens again
    let ok := impl == "D writers=returned reopen=ok"
    { model := "D writers=returned reopen=ok", spec := some ok, note := if ok then "" else "class=write-or-close-never-returns-at-shutdown" }
  else
  match args, impl.splitOn " ## " with
  | [_], [hS, finalS, flags] =>
    let (ws, rs, vs) := parseEvents (hS.drop 2).toString
    -- requests the store must refuse: answered, and answered with the refusal (not a timeout, not accepted)
    let xs := ((hS.drop 2).toString.splitOn ";").filterMap (fun ev => match ev.splitOn "," with
      | ["X", _, _, _, st] => some st
      | _ => none)
    -- a case whose instance was stopped in the middle of the load: `stopAt` is the logical time the stop began;
    -- a request answered after it may have failed (the instance is going down) — before it, none may
    let stopAt : Option Nat := match (flags.splitOn " stopAt=") with
      | [_, t] => t.toNat?
      | _ => none
    let late := fun (resp : Nat) => match stopAt with | some t => resp > t | none => false
    -- (3) every request answered, and answered without error
    let answered := ws.all (fun w => w.ok || late w.resp) && rs.all (fun r => !r.failed || late r.resp) &&
      (stopAt.isSome || vs.all id) && xs.all (· == "refused")
    -- (1) a read sees every write acknowledged before it was issued, (1') and nothing from the future
    let readsOk := rs.all (fun r =>
      (List.range 4).all (fun i =>
        let same := ws.filter (fun w => w.node == r.node && identOf w == i)
        let before := maxOpt ((same.filter (fun w => w.resp < r.inv)).map (·.time))
        let possible := (same.filter (fun w => w.inv < r.resp)).map (·.time)
        match r.times.getD i none, before with
        | none, none => true
        | none, some _ => false                                  -- acknowledged write not visible
        | some t, b => possible.contains t && (match b with | some m => t ≥ m | none => true)))
    -- (2) successive reads of one reader never go back
    let monotone := rs.all (fun r => rs.all (fun r2 =>
      if r.reader == r2.reader && r.node == r2.node && r.resp < r2.inv then
        (List.range 4).all (fun i => match r.times.getD i none, r2.times.getD i none with
          | some t, some t2 => t ≤ t2
          | some _, none => false
          | none, _ => true)
      else true))
    -- (4) the final content is what any serial order of the acknowledged writes gives: newest per identity, hashes consistent
    let finalOk := match parseDump (finalS.drop 6).toString with
      | none => false
      | some st =>
        hashInv st &&
        ["a", "b", "c"].all (fun n =>
          (List.range 4).all (fun i =>
            let same := ws.filter (fun w => w.node == n && identOf w == i && w.ok)
            let want := maxOpt (same.map (·.time))
            let rows : List Store.Point :=
              if i == 3 then (eptsOf st (strBytes (if n == "a" then "G" else "a")) (strBytes n)).filter (fun p => p.type == strBytes "role")
              else (ptsOf st (strBytes n)).filter (fun p => p.type == strBytes "v" && p.key == strBytes (toString i))
            -- a write that was sent but not acknowledged because the instance was going down may or may not be there
            let attempted := (ws.filter (fun w => w.node == n && identOf w == i && !w.ok)).map (·.time)
            match want, rows with
            | none, [] => true
            | none, [p] => attempted.contains p.time
            | some t, [p] => p.time == t || (p.time > t && attempted.contains p.time)
            | _, _ => false))
    let flagsOk := (flags.splitOn " stopAt=").headD "" == "stop=returned reopen=ok stuck=0"
    let ok := answered && readsOk && monotone && finalOk && flagsOk
    { model := if ok then impl else "violation", spec := some ok,
      note := if ok then s!"info=writes:{ws.length},reads:{rs.length}" else if !answered then "class=request-unanswered-or-failed" else if !readsOk then "class=stale-or-phantom-read"
        else if !monotone then "class=reads-went-back" else if !finalOk then "class=final-content-not-serial-or-hash-mismatch" else "class=stop-or-reopen-failed-or-handler-left-behind" }
  | _, _ => bad "C20 parse"

end Driver.C20
