import Driver.Store
import Driver.C06
import Siot.Model.Auth
namespace Driver.C09
open Siot Siot.Store Siot.Auth Driver Driver.StoreD

def authToken : Bytes := strBytes "s3cr3t-Tok"

/-- a JWT placeholder: white-space free marker bytes standing for a token of the given kind -/
def marker (kind : String) : Bytes := strBytes ("<jwt:" ++ kind ++ ">")

/-- net/textproto trims optional white space (space, tab) around a header value -/
def trimOWS (b : Bytes) : Bytes :=
  let isOWS := fun (x : UInt8) => x == 32 || x == 9
  ((b.dropWhile isOWS).reverse.dropWhile isOWS).reverse

def buildHdr (tmpl : String) : Option Bytes :=
  (tmpl.splitOn ",").foldlM (fun acc seg =>
    if seg == "-" then some acc
    else if seg == "A" then some (acc ++ authToken)
    else if seg.startsWith "L" then (ofHex (seg.drop 1).toString).map (acc ++ ·)
    else if seg.startsWith "T" then some (acc ++ marker (seg.drop 1).toString)
    else none) []

/-- tombstone test shared by getNodes / userCheck on the values the generator writes (0 and 1) -/
def isDel (bits : Nat) : Bool := bits != 0

def handle (args : List String) (impl : String) : Verdict :=
  match args with
  | [c] =>
    match c.splitOn "/" with
    | ["gate", tmpl, _method, _route] =>
      match buildHdr tmpl with
      | some raw =>
        let hdr := trimOWS raw
        let ok := fun (t : Bytes) => t == marker "valid"
        let pass := gate authToken ok hdr
        let m := if pass then "served" else "401 t=0"
        -- specification, independently: served only with the exact token or "Bearer <valid>" as first two words
        let s := String.mk (hdr.map (fun x => Char.ofNat x.toNat))
        let words := ((s.replace "\t" " ").splitOn " ").filter (· ≠ "")
        let should := hdr == authToken || (match words with | w0 :: w1 :: _ => w0 == "Bearer" && w1 == "<jwt:valid>" | _ => false)
        let okSpec := if should then impl == "served" else impl == "401 t=0"
        { model := m, spec := some okSpec,
          note := if okSpec then "" else if should then "class=valid-credentials-refused"
            else if impl.startsWith "401" then "class=bus-traffic-from-unauthorized-request" else "class=served-without-credentials" }
      | none => bad "C09 header template"
    | ["login", body] =>
      match body.splitOn "|" with
      | [opsS, cred] =>
        match (if opsS == "-" then some [] else parseOps opsS), cred.splitOn ":" with
        | some ops, [em, pw] =>
          match ofHex em, ofHex pw with
          | some email, some pass =>
            let (st, _) := runOps C06.st0 ops
            let res := userCheck isDel st email pass
            let m :=
              match res with
              | [] => "denied"
              | u :: _ =>
                let l := (listing isDel st u.1).map (fun x => toHex x.1 ++ "/" ++ toHex x.2)
                "token list=" ++ joinOr (sortS l) ","
            -- specification: token iff a user node with these credentials reaches R upward through
            -- non-deleted edges (fixpoint closure, independent of the model's walk); and every listed
            -- node lies in the closure below a live parent of the user
            let lv := live isDel st
            let users := (st.edges.filter (fun e => e.typ == userT && textOf (ptsOf st e.down) emailT == email
              && textOf (ptsOf st e.down) passT == pass)).map (·.down)
            let should := users.any (fun u => (C06.closure lv u).contains rootS)
            let implTok := impl.startsWith "token"
            let listOk :=
              if implTok && should then
                match users.find? (fun u => (C06.closure lv u).contains rootS) with
                | some u =>
                  let places := (lv.filter (fun e => e.down == u)).map (·.up)
                  let shown := (((impl.drop 11).toString.splitOn ",").filter (· ≠ "-")).filterMap (fun s => ofHex ((s.splitOn "/").headD ""))
                  shown.all (fun x => places.any (fun pl => x == pl || (C06.closure lv x).contains pl))
                | none => true
              else true
            let okSpec := implTok == should && listOk
            { model := m, spec := some okSpec,
              note := if okSpec then "" else if should && !implTok then "class=valid-user-cannot-log-in"
                else if implTok && !should then "class=login-without-live-user" else "class=listing-outside-user-subtrees" }
          | _, _ => bad "C09 credentials"
        | _, _ => bad "C09 login ops"
      | _ => bad "C09 login"
    | ["bus", kind] =>
      let m := if kind == "right" then "ok" else "refused"
      { model := m, spec := some (impl == m), note := if impl == m then "" else "class=bus-token-not-enforced" }
    | _ => bad "C09 case"
  | _ => bad "C09 arity"

end Driver.C09
