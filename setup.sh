#!/bin/sh
# Builds the framework offline from files on disk: extractor -> Gen, lake build (all theorems + driver), harness.
set -e
cd "$(dirname "$0")"
export GOFLAGS=-mod=mod GOPROXY=off GOSUMDB=off GOTOOLCHAIN=local
mkdir -p work/bin evidence replays
cp /repo/go.sum harness/go.sum
(cd harness && go build -o ../work/bin/siot-extract ./cmd/siot-extract)
mkdir -p lean/Siot/Gen
./work/bin/siot-extract -repo /repo -out lean/Siot/Gen
(cd lean && lake build)
(cd harness && go build -tags verif -o ../work/bin/siot-diff ./cmd/siot-diff)
echo setup done
