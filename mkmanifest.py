#!/usr/bin/env python3
"""Regenerates MANIFEST.json from propcfg.py (claimed checks) and notapplicable.json (everything else)."""
import json, os, subprocess
from propcfg import PROPS
ROOT = os.path.dirname(os.path.abspath(__file__))
ids = [json.loads(l)["id"] for l in open(os.path.join(ROOT, "properties.jsonl"))]
na = json.load(open(os.path.join(ROOT, "notapplicable.json")))
try:
    hooks = subprocess.run(["git", "-C", "/repo", "log", "--format=%H %s"], capture_output=True, text=True).stdout.splitlines()
    hook_commits = [l.split()[0] for l in hooks if l.split(" ", 1)[1].startswith("verif hooks")]
except Exception:
    hook_commits = []
checks = []
for pid in ids:
    if pid not in PROPS:
        continue
    c = PROPS[pid]
    checks.append({
        "property_id": pid,
        "quick_cmd": f"./check {pid} --tier quick",
        "thorough_cmd": f"./check {pid} --tier thorough",
        "evidence_file": f"/verif/evidence/{pid}.json",
        "replay_cmd_template": f"./check {pid} --replay {{path}}",
        "engine": "lean4-proof+correspondence",
        "level_claimed": {
            "category": "proof",
            "text": c.get("level_text", "Lean 4 theorems over a hand-written executable model, tied to the Go code by regenerated constants and a differential correspondence run"),
            "design_ref": f"DESIGN.md §3 {pid}",
        },
        "level_note": c.get("level_note", "Trusted: Lean kernel, propext/Classical.choice/Quot.sound, extractor, correspondence harness; see evidence trusted_base and modelled_not_verified"),
        "technique": c.get("technique", "Lean 4 machine-checked proof over executable model + model/implementation correspondence check"),
    })
m = {
    "version": 1,
    "setup_cmd": "./setup.sh",
    "hooks": {
        "guard": "verif",
        "enable": "go build -tags verif (harness module /verif/harness with replace => /repo)",
        "baseline_off_cmd": "cd /repo && go test -mod=mod -json -vet=off -count=1 -timeout 25m ./...",
        "source_commits": hook_commits,
        "add_only": True,
    },
    "engines": [
        {"name": "lean4-proof+correspondence", "path": "/verif/check",
         "serves_properties": [c["property_id"] for c in checks],
         "kind_free_text": "Lean 4 theorems (lean/Siot/Props) about executable models (lean/Siot/Model), regenerated constants (siot-extract), differential correspondence harness (siot-diff vs siot-model)"},
    ],
    "checks": checks,
    "not_applicable": [{"property_id": p, "reason": na.get(p, "check not built yet in this session; see DESIGN.md")} for p in ids if p not in PROPS],
    "notes": "All checks go through ./check <id>. KNOWN_FINDINGS.json lists open and fixed genuine defects.",
}
json.dump(m, open(os.path.join(ROOT, "MANIFEST.json"), "w"), indent=1)
print("claimed:", [c["property_id"] for c in checks])
