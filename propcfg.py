"""Per-property configuration of ./check (what to build, what to audit, how many cases, what is trusted)."""

GLOBAL_TRUSTED = [
    "Lean 4.33.0 kernel (leanchecker re-check in the thorough tier)",
    "axioms propext, Classical.choice, Quot.sound only (audited with #print axioms on every run); no native_decide/bv_decide/sorry",
    "siot-extract (harness/cmd/siot-extract): go/ast constant and fact extractor regenerating lean/Siot/Gen",
    "siot-diff (harness/cmd/siot-diff) + siot-model (lean/Driver): correspondence check; Lean compiler for the driver only",
    "Go toolchain and standard library",
]


def nontrivial_default(r):
    return r["impl"]


def race_check(tier, seed, harn, bindir, goenv):
    """C20: the load harness built with the race detector; any DATA RACE report is a violation."""
    import subprocess, os
    exe = os.path.join(bindir, "siot-diff-race")
    goenv = dict(goenv, CGO_ENABLED="1")
    # mutation testing on a scratch copy of the repository: ./check has written a -modfile copy of harness/go.mod
    alt = os.path.join(os.path.dirname(bindir), "go.alt.mod")
    mod = ["-modfile=" + alt] if os.environ.get("VERIF_REPO", "/repo") != "/repo" and os.path.exists(alt) else []
    b = subprocess.run(["go", "build"] + mod + ["-race", "-tags", "verif", "-o", exe, "./cmd/siot-diff"], cwd=harn, env=goenv,
                       capture_output=True, text=True, timeout=900)
    if b.returncode != 0:
        return ("race: go build -race of the load harness", False, "go build -race failed:\n" + b.stdout + b.stderr)
    n = 12 if tier == "quick" else 150
    env = dict(goenv)
    env["GORACE"] = "halt_on_error=0 exitcode=0"
    r = subprocess.run([exe, "gen", "C20", "-seed", str(seed + 100), "-n", str(n)], cwd=harn, env=env, capture_output=True, text=True, timeout=1500)
    try:
        os.remove(exe)
    except OSError:
        pass
    races = r.stderr.count("WARNING: DATA RACE")
    ok = r.returncode == 0 and races == 0 and r.stdout.count("\n") == n
    return (f"race: {n} load cases under the race detector, 0 reports", ok, f"exit={r.returncode} races={races}\n" + r.stderr[-5000:])


PROPS = {
    "C14": {
        "required_theorems": ["c14_exact", "windowExec_iff", "c14_boundaries", "c14_err_start", "c14_err_end",
                              "gen_reHourMin_pinned", "gen_reDate_pinned"],
        "n": {"quick": 30000, "thorough": 400000},
        "thorough_seeds": 3,
        "rule": "random schedules (valid H:MM / HH:MM, wrap, equal, one minute apart, junk-embedded, malformed stream ~12%), "
                "instants at window boundaries +-1ns/+-1s on days around epoch, leap days, far past/future, shifted +-1 day, "
                "expressed in 9 fixed zones; weekday sets tied to the day of t / the day before; date lists near t incl. invalid; "
                "distinct = distinct case line; non-trivial = every case (each exercises parse + window + filters); one case in sixty is a rule with two or three schedule conditions (different windows and weekday sets, sometimes a date) fed through the real rule client with trigger times at the window edges and judged by the rule model (the active point of schedule conditions)",
        "trusted": ["Go time.Date/AddDate/Weekday/Year/Month/Day, regexp, strconv.Atoi (parameters of the model; exercised by the correspondence run)"],
        "modelled": ["client/schedule.go: activeForTime, timeRange.in, filterWeekdays, filterDates modelled by hand in Siot/Model/Schedule.lean",
                     "Go's regexp engine is modelled by two hand-written leftmost matchers; the regex literals are pinned from source"],
        "assumptions": ["time.Date normalises overflowing hour/minute linearly", "AddDate(0,0,±1) is ±24 h in UTC"],
    },
    "C16": {
        "required_theorems": ["c16_codec_roundtrip", "c16_any_chunking", "c16_resync", "c16_reader_char",
                              "gen_cobsEncode_pinned", "gen_cobsDecode_pinned"],
        "n": {"quick": 20000, "thorough": 200000},
        "thorough_seeds": 3,
        "rule": "rd: 1-5 frames (lengths 0,1,2,253-256,507-509, random; zero-free/zero-rich; zero right after a 254-run) written through the real "
                "CobsWrapper.Write, idle delimiters, cut into device reads (byte-wise, all at once, near frame boundaries, random density, empty reads), "
                "~25% with one damage event (flip/drop/insert/long burst); enc: Write output; dec: decoder on valid/truncated/corrupted/random bytes. "
                "distinct = distinct case line; all cases non-trivial (each runs the reader or codec); long frames aim at zero-free runs of exactly 252, 253 and 254 bytes; the stream cases switch the debug level (SetDebug) between reads",
        "trusted": ["bytes.Buffer / bytes.IndexByte / copy semantics (parameters, exercised by the run)"],
        "modelled": ["client/cobs-wrapper.go: cobsEncode, cobsDecodeInplace (in-place aliasing abstracted to a pure function), CobsWrapper.Read/Write modelled by hand in Siot/Model/Cobs.lean",
                     "device reads are whole chunks of at most len(b) bytes; blocking/timing of the serial port is not modelled"],
        "assumptions": ["the caller's buffer has len(b) >= encoded frame + 1 and maxMessageLength >= encoded frame - 1 (Fits)"],
    },
    "C17": {
        "required_theorems": ["c17_roundtrip", "c17_encode_valid", "c17_detects", "c17_subject_safe", "c17_detects_safe",
                              "c17_documented_subjects_safe", "c17_unsafe_witness", "gen_serial_pinned"],
        "n": {"quick": 20000, "thorough": 200000},
        "thorough_seeds": 3,
        "rule": "crc: model LFSR vs crc16.ChecksumCCITT on 1-2 byte and random inputs; rt: SerialEncode->SerialDecode->PbDecodeSerialPoints on "
                "documented and hostile subjects (16/17 bytes, embedded NUL, log) x 0-3 generated points (values incl. float32 limits, times incl. int64 limits, data, origin); "
                "dec: decoder on truncated/random/log-shaped bytes; det: real packets on documented subjects XOR 1-bit, 2-bit, <=16-bit bursts (biased to subject field "
                "and trailer), crafted subject->log rewrites, and heavier damage; distinct = distinct case line; every case runs the real codec; subjects include logs, logLevel, log.a, login/abc, lo, Log, blog next to log",
        "trusted": ["kjx98/crc16 table-driven update (modelled bit-serially; equality exercised by the crc cases)",
                    "protobuf-go Marshal/Unmarshal of SerialPoints (payload is opaque bytes in the model; see C12)"],
        "modelled": ["client/serial-wrapper.go SerialEncode/SerialDecode modelled by hand (Siot/Model/Serial.lean); payload codec not modelled here",
                     "bursts are in transmission order (UART: least significant bit first), which is the order the reflected CRC processes"],
        "assumptions": ["packets shorter than 32767 bits (4095 bytes) for the two-bit guarantee", "subjects without leading/trailing NUL"],
    },
    "C18": {
        "required_theorems": ["c18_conforms", "c18_total", "c18_tooShort_iff", "c18_exception_keeps_regs", "c18_reads_keep_regs",
                              "setReg_read", "statusByte_bit", "gen_modbus_pinned", "minRequestLen_table"],
        "n": {"quick": 20000, "thorough": 200000},
        "thorough_seeds": 3,
        "rule": "register maps (empty, dense from 0 up to 130, gaps, validators even/never/less-than, top and bottom of the address space, "
                "coil registers incl. 4090-4095, sparse with duplicate specs) x requests (reads/writes with quantities 0,1,limit-1,limit,limit+1,2040,2041,32767,32768,65535; "
                "addresses 0..65535 incl. range crossing 0xFFFF; wrong byte counts / lengths; all 256 function codes with random data; truncated headers); "
                "observation = response bytes + whole register file; distinct = distinct case line; every case non-trivial; register maps are built with overlapping AddReg(start, count) runs over registers partly present",
        "trusted": ["sync.RWMutex in Regs (single-threaded here)"],
        "modelled": ["modbus/pdu.go ProcessRequest and modbus/reg.go Regs modelled by hand (Siot/Model/Modbus.lean); Go slices/ints as lists/naturals with the fixed-width steps written out",
                     "the specification Siot/Spec/ModbusSpec.lean is my transcription of MODBUS Application Protocol V1.1b3 section 6; for multiple writes it reuses the model's write loop for the success state"],
        "assumptions": [],
    },
    "C19": {
        "required_theorems": ["c19_read_regs_agrees", "c19_read_regs_error", "c19_read_bits_agrees", "c19_write_reg_then_read",
                              "c19_rtu_roundtrip", "c19_rtu_rejects", "c19_tcp_roundtrip", "c19_tcp_rejects",
                              "c19_uint32_roundtrip", "c19_regs_uint32_roundtrip", "c19_signed_roundtrip", "c19_signed_roundtrip_inv",
                              "gen_framing_pinned"],
        "n": {"quick": 10000, "thorough": 100000},
        "thorough_seeds": 3,
        "rule": "real modbus.Client <-> modbus.Server over net.Pipe, RTU and TCP framing, fresh link per case: coil/discrete reads (counts 1,2,7,8,9,12,15,16,17,24,100,2000,2001,0), "
                "register reads (counts 1..126 incl. 97-100,124-126), single coil/register writes with read-back of the whole register file, on the C18 register maps; "
                "raw frames (valid, bit-flipped, truncated, random) into both Decode functions; conversions uint32/int32/float32 both word orders and int16 on boundary patterns; "
                "distinct = distinct case line; every case runs the real client, server or codec; one case in 25 is a sequence of 2-6 reads over ONE link (on TCP the transaction id goes up with every request; the model is evaluated with the same ids); fq cases: an answer decoded on the CLIENT side of a TCP link after k encoded requests, with a transaction id at, next to or far from k (accepted exactly when the id is k)",
        "trusted": ["net.Pipe as lossless in-memory duplex; math.Float32bits/frombits are bijections on non-NaN patterns"],
        "modelled": ["modbus/client.go, rtu.go, crc.go, tcp.go, RespReadBitsCount/RespReadRegs, data.go modelled by hand (Siot/Model/ModbusE2E.lean) on top of the C18 server model",
                     "timing (respreader, socket deadlines) is not modelled: a request the server does not answer is the outcome `timeout`",
                     "the ASCII transport is not modelled; unit ids: the server and the client of a link share a unit id that varies from case to case (1..247, derived from the case text), so an id that is encoded or decoded wrongly makes the server ignore the request and shows as a time-out; a request addressed to another unit than the server's is not generated"],
        "assumptions": ["register values are 16-bit (Regs16)", "frames are delivered whole (one Read = one frame) as modbus.NewClient requires"],
    },
    "C12": {
        "required_theorems": ["c12_point_roundtrip", "c12_point_time_error", "c12_node_roundtrip", "c12_point_bytes_roundtrip",
                              "c12_points_bytes_roundtrip", "c12_node_bytes_roundtrip", "c12_nodes_bytes_roundtrip", "c12_serial_bytes_roundtrip", "c12_decoders_total",
                              "c12_hr_in_bounds", "c12_subjects_total", "gen_pb_pinned"],
        "n": {"quick": 30000, "thorough": 300000},
        "thorough_seeds": 3,
        "rule": "ep/en/eN: generated points and nodes through the real Points.ToPb / NodeEdge.ToPb / Nodes.ToPb, compared BYTE FOR BYTE with the model's proto3 encoder and decoded back; "
                "dp/dn/dq/dN/dQ/ds: every decoder on valid encodings, on encodings mutated like a hostile peer would (truncation, bit flips, inserted bytes, unknown fields of all wire types, "
                "groups incl. nested/unterminated/mismatched, known field numbers with other wire types, over-long and overflowing varints, field number 0 / > 2^29-1, reserved wire types, duplication) "
                "and on random bytes; replies without node; hr: high-rate payloads of every length class; sj: the four subject parsers on short/odd subjects; "
                "distinct = distinct case line; every case runs a real codec function; one input point in seven carries Go's zero time (0001-01-01), written exactly in the case line",
        "trusted": ["google.golang.org/protobuf v1.27.1 Unmarshal/Marshal (modelled at the byte level in Siot/Model/Proto3.lean; equality exercised on every case)",
                    "golang/protobuf ptypes.Timestamp validation (range constants transcribed)", "float32->float64 widening (IEEE, parameter `widen`)"],
        "modelled": ["data/point.go ToPb, PbToPoint, SerialToPoint, PbDecodePoints, PbDecodeSerialPoints, DecodeSerialHrPayload; data/node.go ToPbNode, PbToNode, PbDecode*; client/msg.go subject parsers",
                     "the byte-level round trip is proved for a point, a Points message of any length, a Node with both point lists, a Nodes / NodesRequest list and a SerialPoints list (Lemmas/Proto3.lean: parse (encFields fs) = some fs for every "
                     "field list the encoder writes; Lemmas/PbBytes.lean: the message decoders on those field lists)"],
        "assumptions": ["times within the protobuf Timestamp range [0001-01-01, 10000-01-01)", "tombstone counts within int32", "strings valid UTF-8 (proto3 requirement)",
                        "strings and data of one point together below 2^63 bytes (protobuf-go refuses messages above 2 GiB)"],
    },
    "C10": {
        "required_theorems": ["c10_decode_encode", "c10_decode_encode_children", "c10_merge_diff", "field_diff", "c10_empty_key_counter", "gen_limits_pinned"],
        "n": {"quick": 20000, "thorough": 200000},
        "thorough_seeds": 3,
        "rule": "random configuration TYPES built at run time with reflect.StructOf (1-4 tagged fields: scalar, *scalar, []scalar, [n]scalar, map[string]scalar, flat struct, *flat struct; "
                "14 scalar kinds; point and edgepoint tags; node id/parent) and random values (boundary integers +-(2^53-1), width limits, empty/unicode/NUL strings, subnormal and huge floats, "
                "nil vs non-nil, 0..9 elements; a separate 'wide' stream with 999/1000/1001 elements, integers beyond 2^53 and empty map keys; 1 dm case in 120 with maps of 400-1000 entries "
                "that are largely replaced and slices growing/shrinking between 0, 3, 700 and 1000 elements): "
                "enc (points compared sorted), rt (Encode then Decode into the zero value), dm (DiffPoints then MergePoints onto a copy), rtc (1 case in 8: the type gets 1-2 `child` fields with their own random element "
                "types; the value and 0-5 children, in any order and sometimes of a node type no field asks for, are encoded and decoded together); distinct = distinct case line; a node with two or more children is decoded into the same struct twice (children in another order first); the struct to fill is passed as pointer, reflect.Value or *reflect.Value, chosen by the case text",
        "trusted": ["reflect (modelled by a deep embedding of types and values)", "IEEE-754 / Go numeric conversions (parameter Num with the stated laws NumLaws; instantiated with real floats in the driver)"],
        "modelled": ["data/encode.go Encode, appendPointsFromValue, pointFromPrimitive, DiffPoints; data/decode.go Decode, SetValue, setVal; data/merge.go MergePoints modelled by hand (Siot/Model/Config.lean)",
                     "child lists (`child` tag) are modelled one level deep (decodeC / decodeKids: the element types have no child fields of their own); FindNodeInStruct (merging into a nested child) is not modelled",
                     "Diff/Merge: proved for every field kind (Lemmas/ConfigDiff.lean scalars, pointers, flat structs; ConfigDiffIdx.lean slices and arrays incl. growth, tail tombstones and trimming; "
                     "ConfigDiffMap.lean maps up to the order of entries); the specification oracle `merged value = b` also runs on every dm case"],
        "assumptions": ["NumLaws: int/uint <-> float64 exact within +-(2^53-1), float32 widening/narrowing inverse, FloatToBool", "containers of pointers and pointers inside flat structs are outside the supported universe",
                        "Diff/Merge: keys of flat struct fields are non-empty (Go derives them from the tag or the field name); merged floats are equal or Go-`==` to the wanted ones (DiffPoints sends nothing for -0 -> +0)"],
    },
    "C11": {
        "required_theorems": ["c11_never_panics", "c11_merge_never_panics", "c11_undeclared_ignored", "gen_config_pinned"],
        "n": {"quick": 20000, "thorough": 200000},
        "thorough_seeds": 3,
        "rule": "the same run-time types and prior values (nil, empty, shorter, longer) with 0-5 hostile points per list: keys '', '0','-1','+3','007','1e3','99999999999999999999','1000','1001',' 1','abc', "
                "struct/map keys; values 0,1,-1,0.5,2^8,2^16,1e19,1e20,2^63,2^64,+-Inf,NaN,5e-324; tombstones 0,1,2,3,-1,-2,2^31; declared and undeclared types, point and edge lists; "
                "Decode and MergePoints under recover; distinct = distinct case line; mre cases call data.MergeEdgePoints with the id and parent of the value, a foreign id, a foreign parent, no parent and an empty id; one type descriptor in three declares its id and parent fields with a named string type",
        "trusted": ["reflect (deep embedding)", "Go's float->int conversion of NaN/out-of-range values (parameter; cannot panic in Go)"],
        "modelled": ["data/decode.go Decode/SetValue/setVal and data/merge.go MergePoints with every reflect Index/Set as a checked operation (outcome panic)",
                     "unexported tagged fields and maps with a named key type are outside the supported universe (reflect would panic on Set / SetMapIndex)"],
        "assumptions": ["field values have the shapes their Go types prescribe (Typed)"],
    },
    "C01": {
        "required_theorems": ["c01_read_is_newest", "c01_one_row_per_identity", "c01_order_batching_irrelevant", "c01_stale_is_noop", "c01_nodePoints_rows", "gen_normalize_pinned"],
        "n": {"quick": 1500, "thorough": 20000},
        "thorough_seeds": 3,
        "rule": "2-11 points over collision alphabets (types '', a, ab, 0, tombstone, value, description; keys '', 0, b, 00, 1), distinct timestamps per identity incl. 1, -1, MaxInt64, "
                "texts incl. NUL / non-UTF-8, values incl. +-0, +-Inf, subnormal, 2^53+1, tombstone counts incl. negative/huge, origins, data; exact re-deliveries; random permutation and "
                "partition into batches; delivered to a node, the root node or an edge of a fresh SQLite store through the real nodePoints/edgePoints; "
                "observation = raw table rows + hashes; oracle = last-write-wins per identity computed from the deliveries alone; distinct = distinct case line; every tenth case (those the wire carries unchanged: tombstone counts within int32, valid UTF-8 text) runs over the BUS on a fresh in-process instance instead: p.<id> / p.<id>.<parent> requests with acknowledgement, and the content read back through nodes.<parent>.<id> requests (client.GetNodes) with the reported hashes — the observation point the property names; every store case ends with a store verification in repair mode, which must change no stored hash (judged under C03)",
        "trusted": ["modernc SQLite: row storage fidelity (TEXT/BLOB/INT/REAL), atomic commit, rollback (parameter; every case runs on a real database file)", "hash/crc32 IEEE table implementation (modelled bit-serially; equality exercised through the stored hashes of every case)"],
        "modelled": ["store/sqlite.go nodePoints, edgePoints, updateHash/updateHashHelper/updateHashEdge, isAncestor, normalizePoints and data.Points.Collapse, data.Point.CRC, data.NodeEdge.CalcHash modelled by hand (Siot/Model/Store.lean, Crc32.lean)", "time.Now() for zero timestamps is not modelled (generated points carry explicit non-zero times)", "the model's upstream walks use fuel 2^|edges|, proved never to be exhausted on reachable (acyclic) states; the Go recursion has no bound"],
        "assumptions": ["Admissible: two different delivered points of one identity never share a timestamp", "no NaN values (refused, C05)"],
    },
    "C03": {
        "required_theorems": ["c03_step_preserves", "c03_reachable", "c03_verify_clean", "c03_crc_depends_exactly", "edgePoints_inv", "gen_store_pinned"],
        "n": {"quick": 1500, "thorough": 20000},
        "thorough_seeds": 3,
        "rule": "random DAG histories of 3-12 steps over 6 node ids: nodes created points-first or edge-first, node points anywhere, edge points incl. delete/undelete, "
                "mirrors (may close diamonds; cycle attempts are refused), attaching above populated subtrees, two-point batches, stale timestamps; "
                "observation = every edge row (up, down, type, hash) and all point rows; oracle = from-scratch Merkle recomputation over the implementation's rows; distinct = distinct case line; every tenth case (those the wire carries unchanged: tombstone counts within int32, valid UTF-8 text) runs over the BUS on a fresh in-process instance instead: p.<id> / p.<id>.<parent> requests with acknowledgement, and the content read back through nodes.<parent>.<id> requests (client.GetNodes) with the reported hashes — the observation point the property names; every store case ends with a store verification in repair mode (hook VerifVerifyHashes) and reports whether any stored hash changed — it must not",
        "trusted": ["modernc SQLite: row storage fidelity (TEXT/BLOB/INT/REAL), atomic commit, rollback (parameter; every case runs on a real database file)", "hash/crc32 IEEE table implementation (modelled bit-serially; equality exercised through the stored hashes of every case)"],
        "modelled": ["store/sqlite.go nodePoints, edgePoints, updateHash/updateHashHelper/updateHashEdge, isAncestor, normalizePoints and data.Points.Collapse, data.Point.CRC, data.NodeEdge.CalcHash modelled by hand (Siot/Model/Store.lean, Crc32.lean)", "time.Now() for zero timestamps is not modelled (generated points carry explicit non-zero times)", "the model's upstream walks use fuel 2^|edges|, proved never to be exhausted on reachable (acyclic) states; the Go recursion has no bound"],
        "assumptions": ["XOR Merkle hashes: a change below an ancestor reached by an even number of paths cancels at that ancestor (a property of the documented definition, see DESIGN)"],
    },
    "C05": {
        "required_theorems": ["c05_refuses_self", "c05_refuses_root_delete", "c05_refuses_nan_node", "c05_refuses_nan_edge", "c05_refuses_cycle",
                              "c05_refused_leaves_no_trace", "c05_dag_invariant", "c05_walks_complete", "gen_facts_pinned"],
        "n": {"quick": 1000, "thorough": 15000},
        "thorough_seeds": 3,
        "rule": "chain R->a->b->c plus d under a (inner edge sometimes tombstoned), then 2-6 of: self edge, root tombstone (values 1, 2, 0.5; parent '' or root), NaN hidden inside an otherwise good "
                "node-point or edge-point batch, cycle-closing edges (a under c/b/d, R under c/d, b under c), new edge without node type, legal mirrors, good follow-up writes; "
                "oracle = every must-refuse request is refused, the final rows equal what the accepted requests alone produce, hashes consistent; distinct = distinct case line; every fifth case runs over the bus with a subscription to up.> (reply of every request, everything rebroadcast for the final, mostly refusable, write); every tenth performs one move or mirror through client.MoveNode / client.MirrorNode (below the node itself or a descendant: must be refused, rebroadcast nothing, leave the edges as they were; or legal); NaN values also come in tombstoned points and in points that carry a text; cycles that close only through the newer of two parents",
        "trusted": ["modernc SQLite: row storage fidelity (TEXT/BLOB/INT/REAL), atomic commit, rollback (parameter; every case runs on a real database file)", "hash/crc32 IEEE table implementation (modelled bit-serially; equality exercised through the stored hashes of every case)"],
        "modelled": ["store/sqlite.go nodePoints, edgePoints, updateHash/updateHashHelper/updateHashEdge, isAncestor, normalizePoints and data.Points.Collapse, data.Point.CRC, data.NodeEdge.CalcHash modelled by hand (Siot/Model/Store.lean, Crc32.lean)", "time.Now() for zero timestamps is not modelled (generated points carry explicit non-zero times)", "the model's upstream walks use fuel 2^|edges|, proved never to be exhausted on reachable (acyclic) states; the Go recursion has no bound", "bus level (reply text, up.* stream, follow-up latency) is covered by the handler facts gen_facts_pinned and, when the bus harness is available, by C06/C08 runs"],
        "assumptions": [],
    },
    "C06": {
        "required_theorems": ["c06_node_complete_and_tight", "c06_edge_complete_and_tight", "c06_node_sub_edge", "c06_self", "gen_rebroadcast_pinned"],
        "n": {"quick": 400, "thorough": 6000},
        "thorough_seeds": 3,
        "rule": "one in-process instance (embedded NATS + store, root R); per case 2-7 edge writes over the bus building chains, mirrors, diamonds, detached nodes (parent none), "
                "tombstoned and undeleted edges (tombstone 0..3), refused self edges; then ONE observed write (node points, edge points incl. delete/undelete, a new edge, or a refused NaN/self write) "
                "whose up.> publications are collected between two sentinel writes; payload compared with the batch sent; oracle = subject set equals the fixpoint upward closure "
                "(live edges for node points, all edges for edge points), nothing for a refused write; distinct = distinct case line; one case in four uses node ids that differ in letter case only; one tombstone write in four is followed by a second one on the same edge with the SAME time stamp",
        "trusted": ["embedded nats-server: in-order delivery per publisher/subscriber, used to bracket the observed publications by sentinels", "modernc SQLite as in C05"],
        "modelled": ["store/store.go processPointsUpstream/processEdgePointsUpstream and store/sqlite.go up modelled by hand (Siot/Model/Rebroadcast.lean on top of the store model); their shape is re-extracted on every run (gen_rebroadcast_pinned)",
                     "math.Mod(tombstone, 2) == 0 is a parameter isEven of the theorems (IEEE remainder not modelled); the driver instantiates it with float arithmetic",
                     "node id 'none' is the walk's stop sentinel in the Go code; a node literally named 'none' is outside the generator (documented in DESIGN.md)",
                     "delivery to slow or disconnected subscribers (NATS at-most-once) is outside the model: the theorem is about what the store publishes"],
        "assumptions": [],
    },
    "C13": {
        "required_theorems": ["c13_point_verdict", "c13_operators", "c13_contains_iff", "c13_float_trichotomy", "c13_schedule_verdict", "c13_condition_latest",
                              "c13_condition_latest_history", "c13_history", "c13_rule_active_iff_all", "c13_actions_once_per_change", "c13_setvalue_payload",
                              "gen_rule_pinned", "gen_rule_constants_pinned"],
        "n": {"quick": 1500, "thorough": 30000},
        "thorough_seeds": 3,
        "rule": "the real RuleClient (NewRuleClient + Run) on a bare embedded NATS server; per case a random rule: 0-3 conditions (point-value with node/type/key filters, all value types "
                "incl. unknown ones, all operators incl. unknown ones, thresholds incl. -0, inf, NaN, 5e-324; schedule conditions with weekdays/dates, some unparsable; unknown condition types; "
                "stale error texts), 0-2 actions and inactive-actions (set-value to t1/t2/own node/missing node or type, unknown actions, stale errors), then 1-6 events: batches of 1-3 points "
                "from 5 nodes (incl. the rule itself, trigger-typed points), schedule ticks at explicit times over four days, threshold / action-value configuration changes (only without schedule "
                "conditions: they evaluate at the wall clock). Observation = every publication of the rule in order (node,type,value,text,origin) + final flags; oracle = per condition the "
                "comparison of the last matching point computed with Lean Float arithmetic / the C14 window, rule = conjunction, firings on targets; distinct = distinct case line",
        "trusted": ["embedded nats-server + nats.go: per-publisher in-order delivery to one subscription (used to collect the rule's publications up to a marker)",
                    "the verif hook VerifRuleFeed hands a batch to the Run loop through the same channel the up.<parent>.* callback uses; the callback itself (subject split, protobuf decode) is three lines outside the model"],
        "modelled": ["client/rule.go ruleProcessPoints, processError, ruleRunActions (set-value and unknown actions), ruleInactiveActions, sendPoint and the run closure modelled by hand (Siot/Model/Rule.lean); shape re-extracted on every run (gen_rule_pinned)",
                     "float64 comparisons are modelled on bit patterns (sign-magnitude order, NaN unordered); the driver cross-checks them against Lean's Float on every case",
                     "the notify action is not modelled (it needs a store); of the play-audio action only the failure to open its file is modelled and generated (an action error after the repair; playing an existing file starts an external player)",
                     "time.Now() stamps of published points are not compared; configuration changes go through data.MergePoints (C10/C11 model) and are restricted to the value field",
                     "the 10 s schedule ticker is replaced by explicit tick events (a case lasts milliseconds)"],
        "assumptions": [],
    },
    "C09": {
        "required_theorems": ["c09_gate_iff", "c09_gate_rejects", "c09_gate_needs_bearer", "c09_token_is_a_field", "c09_gate_accepts", "c09_login_iff",
                              "c09_no_login_without_live_path", "c09_listing_only_subtrees", "c09_listing_edges_are_live", "gen_auth_pinned"],
        "n": {"quick": 600, "thorough": 6000},
        "thorough_seeds": 3,
        "rule": "one in-process instance with auth token (embedded NATS, store, HTTP API; restarted every 150 cases). gate cases: an HTTP request (5 methods x 6 node routes incl. create, points, "
                "parents, notification) whose Authorization header is built from a template: absent, the auth token plain / padded / prefixed / truncated / extended, a JWT without scheme, "
                "scheme words (Bearer, bearer, BEARER, Basic, Bearer:, Token, the token itself) x separators (spaces, tabs, none) x 17 JWT kinds minted at run time with the instance key read "
                "from its database (valid, expired, other key, empty key, HS384, HS512, alg none, no jti, numeric jti, not-yet-valid, payload swapped, header rewritten to none, signature removed, "
                "two parts, garbage), trailing words, a bad token followed by a valid one, wrong order; observation = 401 + number of bus messages the request caused (subjects carrying the "
                "request's unique id, after flushing the API connection) or served. login cases: groups in chains/mirrors/detached, a user in 1-3 places, a second user, deletions and "
                "undeletions of placements and of groups above, moves, then POST /v1/auth with right / wrong / padded credentials; observation = denied or token + the (id,parent) listing of "
                "GET /v1/nodes with the issued token. bus cases: nats.Connect with right / wrong / truncated / padded / no token. Oracle = exact token or first two words Bearer + valid JWT; "
                "login iff a matching user reaches root through non-deleted edges (fixpoint closure); every listed node at or below a live place of the user; distinct = distinct case line; the instance runs on a store file that already has its root node but whose signing key was cleared before the start",
        "trusted": ["github.com/golang-jwt/jwt v4: HS256 signature and exp/nbf validation (parameter tokenOK of the theorems; exercised with 17 token kinds per run)",
                    "net/http + net/textproto header transport (trimming of optional white space is reproduced in the driver)", "nats-server token authorization",
                    "modernc SQLite as in C05"],
        "modelled": ["api/nodes.go gate, api/key.go Key.Valid (strings.Fields restricted to ASCII white space: headers with U+0085/U+00A0/... are outside the model and the generator), "
                     "store/sqlite.go userCheck + checkUserPathRoot, client/node.go GetNodesForUser modelled by hand (Siot/Model/Auth.lean on the store model); shape re-extracted every run (gen_auth_pinned)",
                     "the tombstone test of an edge is a parameter isDel of the theorems: the Go code uses three tests (value != 0 in userCheck, == 1 in getNodes, odd in up) that agree on the values 0/1 every writer uses; the generator writes 0/1",
                     "routes behind the gate are not modelled: a request that passes is only observed as 'served' (any status but 401)",
                     "the statement 'causes no read or write' is decided by the extracted fact gateBeforeBus (the 401 return precedes every use of the bus connection) and observed as zero bus messages"],
        "assumptions": [],
    },
    "C08": {
        "required_theorems": ["c08_foreign_delivered", "c08_own_filtered", "c08_only_from_below", "c08_edge_points_delivered", "c08_order",
                              "c08_fold_holds_store", "c08_fold_rows_equal", "gen_feed_pinned"],
        "n": {"quick": 500, "thorough": 3000},
        "thorough_seeds": 3,
        "rule": "one in-process instance; per case a tree under a fresh group: an instrumented client node (type vdev, registered through the public client.NewManager) under the group or an inner group, "
                "0-2 vchild children, a grandchild, an unrelated node, sometimes a second client with the first child mirrored below it, sometimes a diamond (child reachable by two paths), initial points; "
                "a fresh Manager is started, its subscriptions probed live, then 1-7 observed writes (node-point batches of 1-3 points: scalar, array and map fields and undeclared types, keys ''/0/1/2/a/b; "
                "plain edge points) on the client, children, grandchild, unrelated nodes and the other client, each batch from one origin out of: empty, the client itself, ext, u1, a child, the unrelated node, "
                "the other client; non-decreasing time stamps (1 step in 8 repeats the previous stamp: ties between different points); a sentinel per client closes the log. 1 in 25 cases is a race case: one foreign write is sent while the client's constructor is running. "
                "Observation = per client the ordered callback log + whether its folded configuration equals a fresh Decode of the store; oracle = foreign batches at/below present, own batches absent, "
                "nothing from elsewhere, order of first appearances = order of writes, fold equal when nothing was self-authored; distinct = distinct case line; foreign writes to the map-typed field use the keys a, b, '' and '0' and one in three of them deletes the entry (tombstone 1); one tree in four has a child first placed under the unrelated node, then under the client, then deleted at its older place",
        "trusted": ["embedded nats-server / nats.go: per-subscription in-order delivery", "modernc SQLite as in C05",
                    "data.Decode / data.MergePoints on the harness' Vdev type: modelled at the level of points (last delivered point per identity); their field-level behaviour is C10/C11"],
        "modelled": ["the subscription callback inside client/manager.go scan (echo filter, life-cycle edge points, pass-through) modelled by hand (Siot/Model/Feed.lean) on top of the rebroadcast model of C06; shape re-extracted every run (gen_feed_pinned)",
                     "which subscriptions exist when (client start-up and restarts) is C07; every C08 case starts its own Manager after the tree is built",
                     "NATS delivery to a subscriber that cannot keep up (slow consumer drops) is outside the model"],
        "assumptions": [],
    },
    "C07": {
        "required_theorems": ["c07_wanted_iff", "c07_one_client_per_placement", "c07_quiesce", "c07_exit_removes", "c07_children_current_kept", "c07_stop_returns", "gen_manager_pinned"],
        "n": {"quick": 250, "thorough": 2000},
        "thorough_seeds": 3,
        "rule": "one in-process instance; per case a client.Manager[Vdev] with configured parent type vparent runs while a history is executed under a fresh group: containers (group, vparent, plain device = not a "
                "parent type), client nodes c1/c2 created in one or several placements, vchild children added, edges of every kind deleted and undeleted (placements, children, containers), foreign "
                "configuration updates, and 'w' steps that let the manager settle; often all placements or all containers are deleted at the end. Two labels: S = settled histories (a 'w' before every "
                "operation that relies on a client's subscription: child add/remove, updates), X = racing histories (no such waits). At the end a scan is forced (a node-type point below the root), the "
                "manager settles (bounded wait, subscriptions probed), then: clients inside Run per placement with their children and folded-config-vs-store, overlaps ever seen, Stop returned, clients left. "
                "Oracle = fixpoint closure from the root through non-deleted group/vparent children; one client each; children current; no overlap; Stop returns with nothing left; distinct = distinct case line In one case out of four the instrumented clients take 40 ms to leave Run after Stop (label L): a manager that does not wait for them shows as an overlap or as clients left after Stop.",
        "trusted": ["Go scheduler / channel semantics of the manager's select loop (the LTS abstracts them into atomic events)", "embedded nats-server / nats.go", "modernc SQLite as in C05"],
        "modelled": ["client/manager.go scanHelper (which placements are wanted) on the store model, and the bookkeeping of scan / stop / exit / Stop as a labelled transition system (Siot/Model/Manager.lean); shape re-extracted every run (gen_manager_pinned)",
                     "timing is not modelled: 'once node changes quiesce' is rendered as: one scan after the last change, then the exits of the clients told to stop; the 5 s guards (client that ignores Stop, shutdown timer) and the 1-minute rescan are outside the model (the harness forces a scan)",
                     "that a child change reaches the client's subscription is C06/C08 (c07_children_current_kept takes the trigger as an event); the window before the subscription exists is the open finding",
                     "newClientState returning an error: modelled by the list `bad` of placements whose client cannot be constructed (scan skips them); the driver decides it with the decode model of C10/C11 on the harness's Vdev type; generated as a client node holding a `level` point keyed 'abc', '-1' or '1e3' from before its first placement"],
        "assumptions": [],
    },
    "C15": {
        "required_theorems": ["c15_replace_consistent", "c15_preserve_sends_same", "c15_marker_top_only", "c15_blank_key_restored", "c15_edge_points_kept", "c15_import_stored", "c15_children_order", "c15_reexport", "c15_export_is_own_tree", "c15_export_import_export", "c15_import_timeless_file", "c15_exported_records_meet_the_premises",
                              "c15_exports_live_only", "gen_export_pinned", "gen_export_constants_pinned"],
        "n": {"quick": 500, "thorough": 4000},
        "thorough_seeds": 3,
        "rule": "two in-process instances A and B; per case a tree of 1-6 nodes (5 node types) under a fresh group on A, sometimes with a mirror inside the subtree, a deleted child, a deleted-then-undeleted "
                "child (explicit tombstone 0), an outside node; 0-3 points per node (types description/value/level/tag/nodeID/note, keys ''/0/1/a, point tombstones 0-2, origins) with 34 plain and "
                "YAML-significant texts (colon, hash, quotes, Unicode, leading/trailing space, true/yes/No, numbers, dates, braces, brackets, backslash, * & ! % @ ` | > ? and more), 16 values incl. 1e6, 2e7, "
                "1e15, 1e21, 1e-7, 5e-324, MaxFloat64, -0, +-Inf; node-id points referring to nodes inside, outside and to nothing; extra edge points; 1 case in 4 also draws from the 11 texts of the open "
                "go-yaml finding. The top node or its first child is exported with client.ExportNodes and imported with client.ImportNodes under a fresh group on A or B — or, 1 case in 8, at 'root' of a fresh third instance — with new or preserved ids. "
                "Observation = the imported subtree in pre-order (depth, id, type, parent, points, edge points; ids renamed by first appearance; times/origins not compared; tombstone-0 edge points = none). "
                "Oracle = the exported tree of the source state, renamed, marker on the top description; distinct = distinct case line; one case in two with preserved ids on the same instance deletes every node below the exported one before the import ('|d': restore over a deleted copy)",
        "trusted": ["github.com/goccy/go-yaml v1.11.2 Marshal/Unmarshal of the export structure (parameter: the model hands the tree from export to import; every case goes through the real YAML text)",
                    "github.com/google/uuid: new ids are pairwise different and not blank (hypotheses hinj, hne of c15_replace_consistent)", "modernc SQLite as in C05", "embedded nats-server"],
        "modelled": ["client/node.go ExportNodes/exportNodesHelper, ImportNodes, checkIDs, ReplaceIDs, SendNode modelled by hand on the store model (Siot/Model/Export.lean); a tree is a pre-order list with depths; shape re-extracted every run (gen_export_pinned)",
                     "import under 'root' (replacing the root node) is generated (1 case in 8, on a fresh instance) and judged against the model's import under a group: the old root must be gone and the imported tree be the only root", "time stamps and origins are outside the comparison; the YAML file carries no time stamps (the store stamps the points at the import): the model's export keeps the times, the driver zeroes them before the import, and c15_import_timeless_file proves that importing the time-less file is importing the file stamped with the clocks of the import, the form c15_import_stored speaks about"],
        "assumptions": ["c15_import_stored: the nodes are in the form exportNodesHelper writes (stored rows, key '0' blanked), unknown to the target store, no mirror inside the tree, parent not 'root'/'none'"],
        "partial": "proved: the tree transformations (id replacement, check, marker, noise reduction, liveness of exported nodes); on the store model, for trees without mirrors: sending the prepared nodes leaves exactly one new edge per node "
                   "in file order and the record read back for every imported node is the node of the file, deletion mark included (c15_import_stored, c15_children_order); exporting any imported node again returns the pre-order list the file's own "
                   "parent pointers describe (c15_reexport); on every store whose non-deleted edges form a forest (no mirrors, no cycle) the exported file IS the traversal of its own tree (c15_export_is_own_tree), so that export, import with the ids kept, "
                   "export again returns the very same file (c15_export_import_export). Trees that contain a mirror are covered by the correspondence run only (the driver evaluates SelfRebuilding on every exported file, and the import target 'root' is "
                   "exercised on a fresh instance). With new ids the last step relies on c15_replace_consistent plus the correspondence run. The YAML text is not modelled.",
    },
    "C02": {
        "required_theorems": ["c02_no_write_lost", "c02_points_converge", "c02_exchange_converges_on_stores", "c02_equal_hash_is_skipped", "c02_agreed_node_is_quiet", "c02_pass_is_local", "c02_pass_converges_where_hash_is_faithful", "c02_pass_converges_whole_subtree", "c02_forwarding_order_irrelevant", "c02_stored_rows_on_every_store", "c02_missing_subtree_is_sent", "c02_missing_subtree_keeps_store_invariant", "c02_pass_sends_a_node_missing_upstream", "c02_missing_downstream_arrives_one_level_per_pass", "c02_missing_downstream_node_is_copied", "gen_sync_pinned",
                              "c02_loop_catch_up_while_connected", "c02_loop_forward_iff_connected", "c02_loop_redial_pending", "gen_syncloop_pinned"],
        "n": {"quick": 300, "thorough": 2000},
        "thorough_seeds": 3,
        "rule": "two in-process instances (downstream A with root RA, upstream B with root RB holding RA after a first catch-up); per case a group G under RA: a shared base of 1-4 nodes with points built on A "
                "(nodes created the SendNode way: tombstone 0 + node type; 1 in 14 bare; 1 case in 5 with a node placed under two parents), two catch-up passes, then 1-6 divergent writes on A and on B "
                "(node points and edge points on shared nodes incl. the same identities on both sides, new nodes with children and points on one side, deletions, undeletions, delete+undelete), passes in the "
                "middle, and three final passes. A pass = client.VerifSyncOnce = the real SyncClient.syncNode(RA, G) over real connections (no-echo), without the Run loop. All writes carry the wall clock of "
                "their token; dumps report a time as the index of the token during which it was taken (the model uses scattered logical times with the same order). Observation = op results + the subtree of G "
                "on A and on B (deleted nodes included; type, parent, points, edge points with times). The model is run on the same tokens and must reproduce BOTH dumps exactly; oracle = both dumps equal as "
                "sets of nodes and every identity written shows the newest write; distinct = distinct case line; plus end-to-end cases (3 quick, 25 thorough): the REAL SyncClient under a Manager on a second pair of instances (period 1 s, real-time forwarding, NATS reconnects), with the upstream instance stopped and started again on the same file and ports / the sync node disabled and enabled / no interruption, writes and node creations on both sides around it, then a wait (at most 30 s) for both sides to show the same subtree; judged by the specification only; one divergent node-point write in five is a batch that writes one identity twice, spelled with key '' and with key '0'",
        "trusted": ["embedded nats-server / nats.go request-reply", "modernc SQLite as in C05", "CRC-32 (modelled bit-serially): the model's hash decisions are the implementation's as long as no 32-bit collision happens in one of the two and not the other"],
        "modelled": ["client/sync.go syncNode, sendNodesRemote, sendNodesLocal and client.SendNode modelled by hand on two copies of the store model (Siot/Model/Sync.lean); shape re-extracted every run (gen_sync_pinned)",
                     "the select loop of SyncClient.Run with connect / disconnect is modelled as a state machine over link reports, timer firings, local writes and configuration changes (Siot/Model/SyncLoop.lean: the variables connected, syncTicker, initialSub, ncRemote, connectTimer; shape re-extracted every run, gen_syncloop_pinned); what the NATS library does between the callbacks, the subscriptions that carry upstream traffic down and the discovery of new upstream nodes through up.<root>.*.* are NOT modelled — the end-to-end cases run them",
                     "time.Now() readings inside a pass are a parameter (wall : Int -> Int) of the model and of the theorems",
                     "the syncCount bookkeeping points the client writes to its own node are ignored"],
        "assumptions": [],
        "partial": "proved: a pass never loses or reverts a write on either side (any tree, any hashes); where the pass performs the exchange for a node, both stores hold the newest point per identity afterwards (on the store model itself); an agreed node is left alone; and for two stores that hold the same nodes below a node n (forest-shaped, nothing missing on either side), ONE pass makes the points of n, of every node below it and of every edge between them agree, provided the hash comparison is faithful on the states that follow (equal hashes only over agreeing subtrees) — c02_pass_converges_where_hash_is_faithful, with c02_pass_is_local (nothing outside the subtree is touched, no edge inserted). The row premises of these theorems (stored rows, one row per identity, no node type among edge rows) are shown to hold on every store reachable by write requests (c02_stored_rows_on_every_store); distinct time stamps per identity are the property's own premise. Faithfulness is a hypothesis because it is false in general (two open findings: changes that cancel in the XOR hash): the theorem says that an equal-hash comparison is the ONLY way a difference survives a pass over equal trees. Where a node is missing upstream — the node the pass was started for, or a child — c02_missing_subtree_is_sent proves that sendNodesRemote copies the whole live subtree: every node at every depth with exactly the local points, every edge with exactly the local edge points (plus the mark 'not deleted' where the local edge has no deletion mark), nothing else upstream touched, for a forest of stored rows whose ids upstream does not know yet, with the recursion budget in use shown to reach every depth (belowD_depth). A node missing DOWNSTREAM is different in the code: sendNodesLocal lists the children in the LOCAL store, so it sends that one node and the subtree below it arrives one level per pass (c02_missing_downstream_arrives_one_level_per_pass; confirmed on the implementation: three levels created upstream need three passes) — the instances still converge, so this is an observation about latency, not a violation. Not proved: ids that upstream already knows somewhere else (mirrors, moved nodes), and the combination of both cases in one pass (an equal-tree part and a missing part below the same node): these are covered by c02_no_write_lost and the correspondence run. The loop around the pass is proved to run a pass at every (re)connection and periodically while the link is reported up, to forward local writes exactly then, and to keep a reconnection pending (c02_loop_*); for the real-time path, c02_forwarding_order_irrelevant shows that once every point has reached both stores the rows agree whatever the interleaving, batching and re-delivery on either side (C01's order-independence read for two instances); that NATS delivers every forwarded message, and the downward subscriptions, are covered by the end-to-end cases only",
    },
    "C04": {
        "required_theorems": ["c04_recovered_consistent", "c04_all_or_nothing", "c04_acked_not_lost", "c04_batch_present", "gen_tx_pinned", "gen_pragmas_pinned"],
        "n": {"quick": 250, "thorough": 3000},
        "thorough_seeds": 4,
        "rule": "a separate writer process (the harness binary in mode c04-writer) opens a store file and executes 5-35 batches, acknowledging each on stdout: a chain of 2-9 nodes (deep hash propagation), "
                "sometimes a mirror, node-point batches of 1-4 or 20-100 points over 40 keys, edge-point batches; the parent kills it with SIGKILL after a delay drawn uniformly from the expected run time "
                "(d cases: file initialised beforehand, root id and signing key recorded) or 0-30 ms after start on a file that does not exist yet (i cases: death during first-time initialisation), "
                "re-opens the file with store.NewSqliteDb, dumps every row, compares root id and key, and performs one more write. Oracle = the dump is the state after exactly k or k+1 batches "
                "(k = acknowledgements received), hashes consistent, file opens with the same root and key and accepts writes; distinct = distinct case line (kill instants are wall-clock dependent: "
                "each run explores new instants; the evidence records how many kills fell inside the run and how often the batch in flight had been committed); every 8th case is a SNAPSHOT case (s): the file is prepared with the store's own schema plus triggers that copy the database and its write-ahead log at EVERY row change (first-time initialisation, every point row, every hash update), the store is initialised on it and the batches run in-process, then each of the up to 400 crash images is re-opened with NewSqliteDb and must show the same root and key, consistent hashes and a prefix state of the history (during initialisation: exactly one root edge); one batch in ten carries a NaN value (bare, next to a text, or in a tombstoned point) and must be refused as a whole",
        "trusted": ["SQLite (modernc.org/sqlite) transactions: atomic, and durable against process death in WAL mode with synchronous=NORMAL — the parameter of the model; power loss / OS crash are outside (SIGKILL only)",
                    "the kernel's page cache surviving the death of the process"],
        "modelled": ["process death is modelled at the granularity of batches (Siot/Model/Crash.lean): the recovered store is a prefix state; that each batch is ONE transaction, with nothing executed outside it, "
                     "a rollback before every early return and the root id written inside the root edge's transaction, is extracted from store/sqlite.go on every run (gen_tx_pinned)",
                     "first-time initialisation (meta row, root edge, admin user, key) is several transactions: a death between them leaves a file that opens with root R and a key but, in a window of a few "
                     "hundred microseconds, without the admin user (observed, documented in DESIGN.md; the property makes no claim about the admin user)"],
        "assumptions": [],
        "partial": "instants INSIDE a transaction are covered by SQLite's contract (parameter), not by a theorem about SQLite; the kill tests sample them",
    },
    "C20": {
        "required_theorems": ["c20_reads_monotone", "c20_acked_write_visible", "c20_final_serial_and_consistent", "c20_commit_order_irrelevant", "gen_store_run_pinned"],
        "n": {"quick": 40, "thorough": 500},
        "thorough_seeds": 3,
        "extra": [race_check],
        "rule": "per case a fresh in-process instance (embedded NATS, store, HTTP); 1-6 writer and 1-5 reader goroutines, each with its own bus connection, perform 10-59 operations each on three nodes "
                "(one reachable by two paths): acknowledged node-point writes over 3 identities and edge-point writes with per-writer distinct, overlapping time stamps; reads with GetNodes; a verifier calls "
                "admin.storeVerify; every operation is stamped with a global logical clock at invocation and response. Then the instance is stopped (bounded wait) and its store file opened again and dumped. "
                "Oracle on the history: every request answered without error; a read shows, per identity, a point that some write started before the read ended produced and that is at least as new as "
                "every write acknowledged before the read was issued; reads of one reader never go back; the final rows are the newest acknowledged point per identity with consistent hashes; stop returned; "
                "file re-opened. In addition the same load runs under the Go race detector (12 cases quick, 150 thorough): any DATA RACE report is a violation. distinct = distinct case line "
                "(schedules are wall-clock dependent: each run explores new interleavings) One request in twelve of every writer is one the store must refuse (NaN, self edge, cycle): it must be answered with the refusal, not time out. Every fifth case stops the instance in the MIDDLE of the load (suffix x): Stop must return, the file must open again with consistent hashes, every write acknowledged before or during the shutdown must be there, and a write that was sent but not acknowledged may or may not be.; one case in ten ('d' cases) opens the store directly and closes it while goroutines write node and edge points through the store's write functions: every write and Close must return and the file must open again; every case reports the store handlers left behind after the stop (stuck=0)",
        "trusted": ["Go scheduler, sync.Mutex, database/sql connection pool, modernc SQLite WAL snapshot isolation and locking, embedded nats-server: the run-time whose interleavings the model abstracts into a commit order",
                    "the Go race detector (sound for the executions it sees, not complete)"],
        "modelled": ["a concurrent run is modelled by its commit order and by the prefix each read saw (Siot/Model/Conc.lean); the theorems hold for every commit order",
                     "data races, deadlock, lost replies and termination cannot be expressed in this model: decided by the load harness only (history oracle, race detector, stop + re-open)",
                     "admin.storeMaint (which rewrites hashes from reads made outside its transaction) is not exercised"],
        "assumptions": [],
        "partial": "theorems: monotone reads, visibility of acknowledged writes, serial final content with consistent hashes — for every commit order. Not provable in this family: absence of data races / deadlock / unanswered requests, and that the real store linearises as modelled (checked by the history oracle on sampled schedules)",
    },
}
