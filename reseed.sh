#!/bin/sh
# usage: reseed.sh <wave: 1|2|3> Cxx — re-confirm a recorded seeded change against the CURRENT tree and checks: a scratch worktree of
# /repo at HEAD gets seeded<wave>/Cxx/patch.diff applied, ./check runs against it (VERIF_REPO), the worktree is removed.
# Prints the VIOLATION / summary lines; does not touch /repo's working tree nor the recorded result files.
w=$1; id=$2
d=$(cd "$(dirname "$0")" && pwd)/seeded$([ "$w" = 1 ] || echo $w)/$id
wt=/tmp/reseed/$id-$w
mkdir -p /tmp/reseed
git -C /repo worktree remove --force $wt 2>/dev/null
git -C /repo worktree add -q --detach $wt HEAD || exit 2
if ! git -C $wt apply $d/patch.diff 2>/dev/null; then echo "$id wave $w: patch does not apply to HEAD"; git -C /repo worktree remove --force $wt; exit 3; fi
cd "$(dirname "$0")"
VERIF_REPO=$wt ./check $id 2>&1 | grep -E "^(VIOLATION|C[0-9][0-9] tier)" | sed "s/^/$id wave $w: /"
git -C /repo worktree remove --force $wt
